"""C06 — a pool stays fully correct after any failed call.
Theorems: Props/C06.lean (every admitted call starts dispatching in the state of a fresh pool, for every history of
operations and outcomes).  Correspondence: random histories on one real pool under DetSim — after every operation the
control snapshot of the real pool is compared with Mpire.History.step on the same operation; every successful call is
checked against sequential evaluation."""
import random

from harness import gen, oracles
from harness.common import Driver
from harness.detcheck import key_of, run_scenarios


def history(rng, length):
    pool = {'n_jobs': rng.choice([1, 2, 3]), 'start_method': rng.choice(['fork', 'fork', 'threading'])}
    cur = {'keep_alive': False, 'pass_worker_id': False, 'shared_objects': False, 'use_worker_state': False}
    if rng.random() < .4:
        pool['keep_alive'] = cur['keep_alive'] = True
    ops, mops = [], []
    p = 0
    open_gen = False
    for _ in range(length):
        r = rng.random()
        if r < .12:
            # (while a lazy call is open its workers keep the extras they were started with: the harness cannot tell which
            # extras a running function receives, so pool settings are only changed between calls)
            what = rng.choice(['keep_alive', 'pass_worker_id', 'shared_objects', 'use_worker_state']) if not open_gen else 'keep_alive'
            val = rng.random() < .5
            ops.append({'op': 'set', 'what': what, 'value': val})
            if what == 'keep_alive':
                mops.append('K:%d' % val)
            else:
                mops.append('P:%d' % (val != cur[what]))
            cur[what] = val
        elif r < .17:
            # stop_and_join(keep_alive=False) presupposes that all results are in (its documented precondition): while a lazy call
            # is suspended mid-dispatch only the pausing form is used
            ka = True if open_gen else rng.random() < .5
            ops.append({'op': 'stop_and_join', 'keep_alive': ka})
            mops.append('J:%d' % ka)
        elif r < .22:
            ops.append({'op': 'terminate'})
            mops.append('T')
        elif r < .34 and not open_gen:
            # a batch of apply_async submissions: settles task by task, or worker_init fails and the pool is flagged as failed
            p += 1
            k = rng.randint(1, 5)
            op = {'op': 'apply_batch', 'tasks': [{'idx': i} for i in range(k)], 'dur': {'kind': 'map', 'map': {}, 'default': rng.choice([0.0, 0.01])},
                  'get_timeout': 30}
            w = rng.random()
            out = 'settled'
            if w < .25:
                op['fail'] = {'at': sorted(rng.sample(range(k), rng.randint(1, min(2, k)))), 'exc': rng.choice(['ValueError', 'Custom', 'Wrap'])}
            elif w < .4 and pool['start_method'] == 'fork':
                op['task_timeout'] = 0.2
                op['dur']['map'][str(rng.randrange(k))] = 30.0
            elif w < .6:
                op['init'] = True
                op['fail'] = {'init': 'all', 'exc': rng.choice(['ValueError', 'KeyError'])}
                out = 'poolfailed'
            elif w < .7:
                op['init'] = True
            ops.append(op)
            mops.append('A:%d:%s:0:-' % (p, out))
        elif r < .40 and not open_gen:
            # a call that is rejected while its arguments are validated
            p += 1
            kind = rng.choice(['map', 'map_unordered', 'imap', 'imap_unordered'])
            ops.append({'op': kind, 'n': rng.randint(2, 6), 'chunk_size': 1, 'elem': 'scalar', 'input': rng.choice(['list', 'list', 'nd']) if kind in ('map', 'imap') else 'list',
                        'bad_arg': rng.choice(['chunk_size', 'n_splits', 'max_tasks_active', 'worker_lifespan', 'task_timeout', 'bar_option', 'bar_option']), 'expect_rejected': True})
            if ops[-1]['bad_arg'] == 'n_splits':
                ops[-1].pop('chunk_size')
            mops.append('C:%d:%d:rejected:0:-' % (kind in ('map', 'imap'), p))
        else:
            p += 1
            kind = rng.choice(['map', 'map_unordered', 'imap', 'imap_unordered'])
            nn = rng.randint(2, 10)
            op = {'op': kind, 'n': nn, 'chunk_size': rng.choice([1, 2, 3]), 'elem': rng.choice(['scalar', 'tuple', 'dict']),
                  'dur': {'kind': 'hash', 'salt': rng.randint(0, 99), 'unit': 0.005}}
            if rng.random() < .3:
                op['worker_lifespan'] = rng.choice([1, 2])
            if rng.random() < .25:
                op['progress_bar'] = True
            q = rng.random()
            out = 'ok'
            if q < .3:
                w = rng.random()
                if w < .1:
                    # the caller's own input iterable raises while it is being consumed
                    op['input'] = 'gen'
                    op['iterable_len'] = nn
                    op['input_raises_at'] = rng.randrange(nn)
                    op['fail'] = {'input': True}
                elif w < .5:
                    op['fail'] = {'at': [rng.randrange(nn)], 'exc': rng.choice(['ValueError', 'Custom'])}
                    if pool['start_method'] == 'threading' and nn >= 2 and rng.random() < .5:
                        # a thread cannot be interrupted: another task of the failing call is still running (for seconds) when the call fails
                        other = rng.choice([i for i in range(nn) if i != op['fail']['at'][0]])
                        op['dur'] = {'kind': 'map', 'map': {str(other): rng.choice([3.0, 7.0])}, 'default': 0.005}
                        op['fail']['at'] = [i for i in op['fail']['at']]
                elif w < .65:
                    op['init'] = True
                    op['fail'] = {'init': 'all'}
                elif w < .8:
                    op['exit'] = True
                    op['fail'] = {'exit': 'all'}
                    if cur['keep_alive']:
                        op['fail'] = {'at': [0]}
                        op.pop('exit')
                elif pool['start_method'] == 'fork':
                    op['task_timeout'] = 0.2
                    op['dur'] = {'kind': 'map', 'map': {str(rng.randrange(nn)): 30.0}, 'default': 0.005}
                    op['fail'] = {'timeout': True}
                else:
                    op['fail'] = {'at': [0]}
                out = 'fail'
            elif q < .42 and kind in ('imap', 'imap_unordered') and not open_gen:
                op['consume'] = rng.randint(1, nn - 1)
                if rng.random() < .5:
                    op['abandon'] = 'close'
                    out = 'closed'
                    if rng.random() < .4 and op['consume'] < nn - 1:
                        # one of the tasks the consumer never asked for fails in the background while the generator is suspended;
                        # the generator is then closed without being resumed
                        op['fail'] = {'at': [rng.randrange(op['consume'] + 1, nn)], 'exc': 'ValueError'}
                        op['pause_before_close'] = 0.5
                        op['max_tasks_active'] = 2 * nn
                else:
                    out = 'open'
                    open_gen = True
            ops.append(op)
            mops.append('C:%d:%d:%s:0:-' % (kind in ('map', 'imap'), p, out))
    if not pool.get('keep_alive') and not any(o.get('what') == 'keep_alive' or o['op'] == 'apply_batch' for o in ops):
        # (apply submissions leave their workers running, like keep_alive: hook accounting per call only makes sense without them)
        # exit results are per call: a call never reports what the worker_exit functions of an earlier call returned
        for o in ops:
            if o['op'] in oracles.MAPS and not o.get('fail') and 'consume' not in o and not o.get('expect_rejected') and rng.random() < .5:
                o['init'] = o['exit'] = True
    # (one function object for all calls is only used when no lazy call stays open: the harness' function finds out which call it
    # is running for from the operation that is current, and tasks of an open call can still be running during a later operation)
    return {'seed': rng.randint(0, 10 ** 6), 'pool': pool, 'ops': ops, 'model_ops': mops, 'latency_bound': 5.0,
            'same_func': rng.random() < .5 and not any(':open:' in m for m in mops),
            'relax_shape': any(o['op'] == 'apply_batch' for o in ops)}


def kill_histories(rng, n):
    """histories in which a worker is SIGKILLed while it runs a task (map-family call: the call raises RuntimeError; apply: that task
    fails): whatever comes afterwards on the same pool behaves as on a fresh one"""
    out = []
    for _ in range(n):
        nj = rng.choice([1, 2, 3])
        pool = {'n_jobs': nj, 'start_method': 'fork'}
        if rng.random() < .4:
            pool['keep_alive'] = True
        ops = []
        for k in range(rng.randint(2, 5)):
            if rng.random() < .4:
                kk = rng.randint(1, 5)
                ops.append({'op': 'apply_batch', 'tasks': [{'idx': i} for i in range(kk)], 'dur': {'kind': 'map', 'map': {}, 'default': 0.02}, 'get_timeout': 30})
            else:
                ops.append({'op': rng.choice(['map', 'map_unordered', 'imap', 'imap_unordered']), 'n': rng.randint(2, 8), 'chunk_size': rng.choice([1, 2]),
                            'elem': 'scalar', 'dur': {'kind': 'hash', 'salt': rng.randint(0, 99), 'unit': 0.01}})
        ops.append({'op': rng.choice(['stop_and_join', 'map']), **({'n': 4, 'chunk_size': 1} if False else {})})
        if ops[-1]['op'] == 'map':
            ops[-1].update({'n': 4, 'chunk_size': 1, 'elem': 'scalar'})
        out.append({'seed': rng.randint(0, 10 ** 6), 'pool': pool, 'ops': ops, 'same_func': True, 'relax_shape': True,
                    'inject': [{'kind': 'sigkill', 'victim': 'Worker-%d' % rng.randrange(nj), 'when': 'in_user', 'nth': rng.randint(1, 12)}]})
    return out


def kill_judge(chk, sc, o):
    if o.get('harness_error'):
        return
    case = {'scenario': sc}
    inj = o.get('injected')
    if o.get('stuck'):
        chk.violation('usable_after_worker_death', case, {'stuck': o['stuck'], 'injected': inj}, 'no call hangs after a worker died inside a task', input_class='kill_history_hang')
        return
    if not inj:
        return
    k = inj.get('opi', 0)
    allow_late = True       # a death noticed only when the next map-family call has begun makes THAT call raise RuntimeError, once
    for opi, (op, oo) in enumerate(zip(sc['ops'], o.get('ops', []))):
        died = (oo.get('exc') or {}).get('type') == 'RuntimeError'      # (the wording of the message is not part of the property)
        if opi < k:
            continue
        if opi == k:
            if op['op'] == 'apply_batch':
                bad = [a for a in oo.get('apply', []) if a[1] != 'ok']
                if len(bad) > 1 or any(a[2] != 'RuntimeError' for a in bad):
                    chk.violation('usable_after_worker_death', case, {'op': opi, 'failed': bad, 'injected': inj}, 'only the task of the dead worker fails', input_class='kill_history_apply')
            elif oo.get('outcome') == 'raise' and not died:
                chk.violation('usable_after_worker_death', case, {'op': opi, 'raised': oo.get('exc'), 'injected': inj}, 'RuntimeError naming the dead worker', input_class='kill_history_error')
            continue
        if oo.get('outcome') == 'raise':
            if died and allow_late and op['op'] in oracles.MAPS:
                allow_late = False
                continue
            chk.violation('usable_after_worker_death', case, {'op': opi, 'raised': oo.get('exc'), 'injected': inj},
                          'calls after the one in which a worker died behave as on a fresh pool', input_class='kill_history_later_call')
            return
        allow_late = False
        if op['op'] == 'apply_batch' and any(a[1] != 'ok' or a[2] != oracles.value_of(a[0]) for a in oo.get('apply', [])):
            chk.violation('usable_after_worker_death', case, {'op': opi, 'apply': oo.get('apply'), 'injected': inj}, 'later apply tasks complete correctly', input_class='kill_history_later_apply')
            return


def snap_tok(c):
    if any(c.get(k) is None for k in ('n_workers', 'initialized', 'map_running', 'keep_order', 'exception_thrown')):
        return 'unreadable control state: %s' % sorted(k for k, v in c.items() if v is None)
    return 'w=%s init=%d run=%d ko=%d exc=%d' % ('+' if c['n_workers'] else '-', c['initialized'], c['map_running'], c['keep_order'], c['exception_thrown'])


def model_tok(m):
    f = dict(x.split('=') for x in m.split(' '))
    return 'w=%s init=%s run=%s ko=%s exc=%s' % ('-' if f['w'] == '-' else '+', f['init'], f['run'], f['ko'], f['exc']), f


def run(chk):
    drv = Driver()
    rng = chk.rng
    L = 6 if chk.tier == 'quick' else 20
    from harness.pure import permanent
    permanent.tie(chk, drv, 400 if chk.tier == 'quick' else 6000)      # what a failed call leaves in the permanent cache entries is gone after the reset
    import glob
    import json as _json
    import os as _os
    from harness.common import ROOT
    corpus = []
    for f in sorted(glob.glob(_os.path.join(ROOT, 'corpus', 'C06', '*.json'))):
        try:
            corpus.append(_json.load(open(f))['case']['scenario'])
        except Exception:
            pass
    scs = corpus + [history(rng, rng.randint(2, L)) for _ in range(250 if chk.tier == 'quick' else 4000)]
    obs = run_scenarios(chk, 'random histories with failures on one pool (DetSim): successful calls == sequential evaluation', scs, {'C06', 'C01', 'C02', 'C03', 'C05', 'C11', 'C12'},
                        nontrivial=lambda sc, o: len(sc['ops']) >= 3,
                        dist=lambda sc, o: {'length': len(sc['ops']), 'start': sc['pool']['start_method'],
                                            'failures': sum(1 for m in sc['model_ops'] if ':fail:' in m), 'open_or_closed': sum(1 for m in sc['model_ops'] if ':open:' in m or ':closed:' in m)})
    lines, refs = [], []
    for sc, o in zip(scs, obs):
        if o.get('harness_error') or o.get('stuck') or len(o.get('ops', [])) != len(sc['ops']):
            continue
        pre = 'K:1;' if sc['pool'].get('keep_alive') else ''
        mops = list(sc['model_ops'])
        for k, (m, oo) in enumerate(zip(mops, o['ops'])):
            # an ordered imap that was left open by the consumer may have finished internally (its reorder buffer holds the rest)
            if ':open:' in m and oo.get('outcome') == 'ok' and not oo['control']['map_running']:
                mops[k] = m.replace(':open:', ':ok:')
            # … and one that was closed early may have finished internally before it was closed (then nothing is terminated)
            if ':closed:' in m and oo.get('outcome') == 'ok' and not oo['control']['exception_thrown']:
                mops[k] = m.replace(':closed:', ':ok:')
            # workers started by apply submissions stay: a worker_init that is meant to fail is not run again on them
            if ':fail:' in m and (sc['ops'][k].get('fail') or {}).get('init') and oo.get('outcome') == 'ok' and \
                    not any(r.get('opi') == k for r in o.get('raised', [])):
                mops[k] = m.replace(':fail:', ':ok:')
            # worker_init of an apply batch only runs when this batch started the workers (running workers are used as they are)
            if ':poolfailed:' in m and not any(c[0] == k and c[1] == 'init' for c in o.get('calls', [])):
                mops[k] = m.replace(':poolfailed:', ':settled:')
        lines.append('hist ops=' + pre + ';'.join(mops))
        refs.append((sc, o, 1 if pre else 0))
    rejected_errs = {}
    for line, res, (sc, o, skip) in zip(lines, drv.run(lines), refs):
        chk.count('control snapshots after every operation vs Mpire.History.step', key=line, nontrivial=line.count(';') >= 2, sample={'line': line, 'model': res[:200]})
        if not res.startswith('ok '):
            chk.mismatch('history model rejected the operations', {'scenario': sc, 'line': line}, 'ops', res)
            continue
        states = res[3:].split('/')[skip:]
        dirty = False
        for opi, (oo, m) in enumerate(zip(o['ops'], states)):
            mt, f = model_tok(m)
            it = snap_tok(oo['control'])
            ok = it == mt
            # apply submissions advance the chunk numbering by amounts that depend on the schedule: the numbering is compared again
            # once a map-family call has run (which has to start from 0, see C16)
            if sc['ops'][opi]['op'] == 'apply_batch':
                dirty = True
            elif sc['ops'][opi]['op'] in oracles.MAPS and not sc['ops'][opi].get('expect_rejected') and f['run'] == '0':
                dirty = False
            if ok and f['run'] == '0' and not dirty:
                ok = ((oo['control']['task_idx'] or 0) == int(f['ti'])) and (len(oo['control']['last_completed'] or []) == int(f['lc']))
            if not ok:
                chk.mismatch('control state after operation %d differs from Mpire.History' % opi,
                             {'scenario': sc, 'op_index': opi, 'model_ops': sc['model_ops'][:opi + 1]},
                             it + ' ti=%s lc=%d' % (oo['control']['task_idx'], len(oo['control']['last_completed'] or [])), m)
                break
        # a failed call must surface its own error, never a foreign one; later successful calls are checked by the C01/C02 oracles above
        for opi, (op, oo) in enumerate(zip(sc['ops'], o['ops'])):
            if (op.get('fail') or {}).get('input') and (oo.get('outcome') != 'raise' or (oo.get('exc') or {}).get('type') != 'InputBroken') and \
                    not ((oo.get('exc') or {}).get('type') == 'RuntimeError' and any(':open:' in m2 for m2 in sc['model_ops'][:opi])):
                chk.violation('input_error_surfaces', {'scenario': sc}, {'op': opi, 'outcome': oo.get('outcome'), 'raised': oo.get('exc')},
                              'an exception raised by the input iterable reaches the caller', input_class='input_error')
            if op.get('expect_rejected'):
                # (a bad progress-bar option is rejected with tqdm's own error class, also when no bar is shown)
                if oo.get('outcome') != 'raise' or ((oo.get('exc') or {}).get('type') not in ('TypeError', 'ValueError') and op.get('bad_arg') != 'bar_option'):
                    chk.violation('invalid_arguments_rejected', {'scenario': sc}, {'op': opi, 'outcome': oo.get('outcome'), 'raised': oo.get('exc')},
                                  'a call with an invalid argument is rejected with TypeError/ValueError', input_class='not_rejected')
                continue
            if op['op'] in oracles.MAPS and not op.get('fail') and oo.get('outcome') == 'raise':
                et = (oo.get('exc') or {}).get('type')
                msg = str((oo.get('exc') or {}).get('args'))
                # the documented error for calling a map while a lazy call is still open (recognised by its type and the situation,
                # not by its wording)
                if not (et == 'RuntimeError' and any(':open:' in m2 for m2 in sc['model_ops'][:opi])):
                    chk.violation('no_foreign_error_surfaces', {'scenario': sc}, {'op': opi, 'raised': oo.get('exc')},
                                  'a call that should succeed raises only the documented "another map is running" error', input_class='foreign_error')
                else:
                    # the error for "another map is running" is the same whatever happened on the pool before (compared across the
                    # histories of this run: type, args and attributes — no wording is assumed)
                    eventful = any(x['op'] == 'terminate' or x.get('fail') or x.get('expect_rejected') for x in sc['ops'][:opi])
                    rejected_errs.setdefault((et, msg, str((oo.get('exc') or {}).get('attrs'))), []).append((eventful, sc, opi, oo.get('exc')))
    if len(rejected_errs) > 1:
        # the reference is what such a call raises on a pool on which nothing else had happened
        plain = [k for k, v in rejected_errs.items() if any(not e for e, *_ in v)]
        ref = max(plain or list(rejected_errs), key=lambda k: len(rejected_errs[k]))
        for k, v in rejected_errs.items():
            if k != ref:
                _, sc_, opi_, exc_ = v[0]
                chk.violation('error_of_a_call_is_its_own', {'scenario': sc_}, {'op': opi_, 'raised': exc_, 'same_situation_elsewhere_raises': {'type': ref[0], 'args': ref[1]}},
                              'a call made while a lazy call is open raises the documented error, not one left over from earlier operations',
                              input_class='stale_error_surfaces')
    # a call that fails after it has claimed the pool but before its own bookkeeping exists: the kept-alive workers have to be
    # replaced (a pool setting changed) and their deferred worker_exit raises while they are being retired — every later call
    # behaves as on a fresh pool
    ds = []
    for _ in range(24 if chk.tier == 'quick' else 300):
        nj = rng.choice([1, 2, 3])
        what = rng.choice(['pass_worker_id', 'shared_objects', 'use_worker_state'])
        later = [{'op': rng.choice(['map', 'map_unordered', 'imap', 'imap_unordered']), 'n': rng.randint(2, 8), 'chunk_size': rng.choice([1, 2, 3]), 'elem': rng.choice(['scalar', 'tuple'])}
                 for _k in range(rng.randint(1, 3))]
        if rng.random() < .5:
            later.append({'op': 'apply_batch', 'tasks': [{'idx': i} for i in range(rng.randint(1, 3))], 'dur': {'kind': 'map', 'map': {}, 'default': 0.01}, 'get_timeout': 30})
        ds.append({'seed': rng.randint(0, 10 ** 6), 'pool': {'n_jobs': nj, 'start_method': rng.choice(['fork', 'threading']), 'keep_alive': True}, 'same_func': False, 'relax_shape': True,
                   'ops': [{'op': 'map', 'n': rng.randint(2, 6), 'chunk_size': 1, 'exit': True, 'fail': {'exit': 'all', 'exc': 'ValueError'}},
                           {'op': 'set', 'what': what, 'value': True},
                           {'op': rng.choice(['map', 'imap_unordered']), 'n': rng.randint(2, 6), 'chunk_size': 1}] + later})
    dobs = run_scenarios(chk, 'a call that fails while the retired workers run their deferred worker_exit, then more calls (DetSim)', ds, {'C01', 'C02', 'C03'},
                         nontrivial=lambda sc, o: True, dist=lambda sc, o: {'outcomes': str([x.get('outcome') for x in o.get('ops', [])][:3]), 'start': sc['pool']['start_method']})
    for sc, o in zip(ds, dobs):
        if o.get('harness_error') or o.get('stuck'):
            continue
        for opi in range(3, len(sc['ops'])):
            oo = o['ops'][opi] if opi < len(o.get('ops', [])) else {}
            if oo.get('outcome') != 'ok':
                chk.violation('later_calls_behave_as_on_a_fresh_pool', {'scenario': sc}, {'op': opi, 'outcome': oo.get('outcome'), 'raised': oo.get('exc')},
                              'after a failed call later calls start fresh workers and succeed', input_class='stuck_after_failed_start')
                break
    # apply submissions whose worker_init fails (or overruns) in every worker leave the pool failed as a whole; the next apply submissions
    # start over and are served like on a fresh pool
    fa = []
    for _ in range(40 if chk.tier == 'quick' else 600):
        nj = rng.choice([1, 2, 3])
        first = {'op': 'apply_batch', 'tasks': [{'idx': i} for i in range(rng.randint(1, 3))], 'init': True, 'dur': {'kind': 'map', 'map': {}, 'default': 0.01}, 'get_timeout': 30}
        if rng.random() < .6:
            first['fail'] = {'init': 'all', 'exc': rng.choice(['ValueError', 'Custom', 'KeyError'])}
        else:
            first['worker_init_timeout'] = 0.2
            first['init_dur'] = 5.0
        k = rng.randint(1, 5)
        later = {'op': 'apply_batch', 'tasks': [{'idx': i} for i in range(k)], 'dur': {'kind': 'map', 'map': {}, 'default': 0.01}, 'get_timeout': 30}
        if rng.random() < .4:
            later['init'] = True
        ops = [first, later]
        if rng.random() < .4:
            ops.append({'op': rng.choice(['map', 'imap_unordered']), 'n': rng.randint(2, 6), 'chunk_size': 1})
        fa.append({'seed': rng.randint(0, 10 ** 6), 'pool': {'n_jobs': nj, 'start_method': 'fork' if 'worker_init_timeout' in first else rng.choice(['fork', 'threading'])}, 'ops': ops})
    faobs = run_scenarios(chk, 'apply submissions after apply submissions whose worker_init failed in every worker (DetSim)', fa, {'C03'}, nontrivial=lambda sc, o: True,
                          dist=lambda sc, o: {'first': 'raises' if 'fail' in sc['ops'][0] else 'overruns', 'n_jobs': sc['pool']['n_jobs']})
    for sc, o in zip(fa, faobs):
        if o.get('harness_error') or o.get('stuck') or len(o.get('ops', [])) < 2:
            continue
        vs = []
        for opi in range(1, len(sc['ops'])):
            (oracles.check_apply_op if sc['ops'][opi]['op'] == 'apply_batch' else oracles.check_op)(sc, o, opi, lambda p_, c_, d_: vs.append((p_, c_, d_)))
        for p_, c_, d_ in vs:
            if p_ in ('C09', 'C01', 'C02'):
                chk.violation('later_calls_behave_as_on_a_fresh_pool', {'scenario': sc}, {'clause': c_, 'detail': d_}, 'after a failed call later calls start fresh workers and succeed',
                              input_class='apply_after_failed_apply')
                break
    # a call interrupted by Ctrl-C (at any moment, also inside the pool's deferred sections), then more calls on the same pool: they
    # behave as on a fresh pool — correct results, and the SIGINT handler the caller had is in place again (a later interrupt
    # would be acted on, not swallowed)
    sh = []
    for _ in range(60 if chk.tier == 'quick' else 900):
        nj = rng.choice([1, 2, 3])
        first = {'op': rng.choice(['map', 'imap', 'imap_unordered', 'map_unordered']), 'n': rng.randint(3, 10), 'chunk_size': rng.choice([1, 2]),
                 'dur': {'kind': 'hash', 'salt': rng.randint(0, 99), 'unit': 0.01}}
        if first['op'] in ('imap', 'imap_unordered') and rng.random() < .5:
            first['consume'] = rng.randint(1, 2)
            first['abandon'] = 'close'          # the pool's clean-up of a lazy call that is closed early runs in a deferred section
        later = [{'op': rng.choice(['map', 'map_unordered', 'imap']), 'n': rng.randint(2, 8), 'chunk_size': 1} for _k in range(rng.randint(1, 2))]
        if rng.random() < .5:
            later[0]['worker_lifespan'] = rng.choice([1, 2])       # the next call replaces its workers as it goes
            later[0]['n'] = rng.randint(2 * nj, 4 * nj)
        sh.append({'seed': rng.randint(0, 10 ** 6), 'pool': {'n_jobs': nj, 'start_method': rng.choice(['fork', 'fork', 'threading']), 'keep_alive': rng.random() < .5},
                   'ops': [first] + later, 'same_func': False, 'relax_shape': True, 'inject': [{'kind': 'sigint', 'point': rng.randint(3, 260)}]})
    # … in particular at every scheduling point of the caller while the call winds down (workers told to stop, queues joined, helper
    # threads stopped): a few calls swept exhaustively over their last points
    from harness import inject as _inject
    bases = []
    for _ in range(2 if chk.tier == 'quick' else 12):
        nj = rng.choice([2, 3])
        bases.append({'seed': rng.randint(0, 10 ** 6), 'pool': {'n_jobs': nj, 'start_method': 'fork'}, 'same_func': False, 'relax_shape': True,
                      'ops': [{'op': rng.choice(['map', 'map_unordered']), 'n': rng.randint(3, 6), 'chunk_size': 1, 'dur': {'kind': 'hash', 'salt': rng.randint(0, 99), 'unit': 0.01}},
                              {'op': 'map', 'n': rng.randint(2 * nj, 4 * nj), 'chunk_size': 1, 'worker_lifespan': 1}]})
    for _b, _bo in zip(bases, _inject.baseline(bases)):
        if _bo.get('stuck') or _bo.get('harness_error') or not _bo.get('ops'):
            continue
        end = _bo['ops'][0].get('main_points_end') or 0
        sh += _inject.sigint_sweep(_b, _bo, lo=max(1, end - 45), hi=end)
    sobs = run_scenarios(chk, 'a call interrupted by Ctrl-C, then more calls on the same pool (DetSim)', sh, {'C01', 'C02', 'C03'},
                         nontrivial=lambda sc, o: bool(o.get('injected')),
                         dist=lambda sc, o: {'interrupt_landed_in_op': (o.get('injected') or {}).get('opi', 'x') if False else str(next((i for i, x in enumerate(o.get('ops', [])) if (x.get('exc') or {}).get('type') == 'KeyboardInterrupt'), 'none')),
                                             'site': ((o.get('injected') or {}).get('site') or '-')[:40]})
    for sc, o in zip(sh, sobs):
        if o.get('harness_error') or o.get('stuck') or 'injected' not in o:
            continue
        ki = next((i for i, x in enumerate(o.get('ops', [])) if (x.get('exc') or {}).get('type') == 'KeyboardInterrupt'), None)
        for opi, oo in enumerate(o.get('ops', [])):
            if oo.get('outcome') == 'raise' and opi != ki:
                chk.violation('later_calls_behave_as_on_a_fresh_pool', {'scenario': sc}, {'op': opi, 'raised': oo.get('exc'), 'interrupted_op': ki},
                              'after an interrupted call later calls succeed', input_class='call_fails_after_interrupt')
                break
        if o.get('sigint_handler_after') != o.get('sigint_handler_before'):
            chk.violation('later_calls_behave_as_on_a_fresh_pool', {'scenario': sc}, {'sigint_handler_before': o.get('sigint_handler_before'), 'after': o.get('sigint_handler_after'),
                                                                                    'injected': o.get('injected')},
                          'after an interrupted call the caller\'s SIGINT handler is in place again: a later interrupt is acted on as on a fresh pool',
                          input_class='stale_sigint_handler_after_interrupt')
    ks = kill_histories(rng, 120 if chk.tier == 'quick' else 2000)
    kobs = run_scenarios(chk, 'histories in which a worker is killed inside a task, then the pool is used again (DetSim)', ks, {'C06', 'C01', 'C02'},
                         nontrivial=lambda sc, o: bool(o.get('injected')),
                         dist=lambda sc, o: {'killed_in': sc['ops'][(o.get('injected') or {}).get('opi', 0)]['op'] if o.get('injected') else 'not reached',
                                             'keep_alive': bool(sc['pool'].get('keep_alive'))})
    for sc, o in zip(ks, kobs):
        kill_judge(chk, sc, o)
    # an apply task that overruns its limit (only that task is interrupted, the workers live on), then a map-family call on the same
    # workers - with and without a progress bar, whose handler looks at the same flags: like on a fresh pool
    ta = []
    for _ in range(30 if chk.tier == 'quick' else 400):
        nj = rng.choice([1, 2, 3])
        k = rng.randint(1, 3)
        ta.append({'seed': rng.randint(0, 10 ** 6), 'pool': {'n_jobs': nj, 'start_method': 'fork', 'keep_alive': rng.random() < .5}, 'relax_shape': True,
                   'ops': [{'op': 'apply_batch', 'tasks': [{'idx': i} for i in range(k)], 'task_timeout': rng.choice([0.2, 0.3]), 'get_timeout': 30,
                            'dur': {'kind': 'map', 'map': {str(rng.randrange(k)): rng.choice([50.0, 600.0])}, 'default': 0.01}},
                           {'op': rng.choice(['map', 'map_unordered', 'imap', 'imap_unordered']), 'n': rng.randint(3, 20), 'chunk_size': rng.choice([1, 2]), 'elem': 'scalar',
                            'progress_bar': rng.random() < .7}]})
    tobs = run_scenarios(chk, 'an apply task times out, then a map-family call (with a bar) on the same workers (DetSim)', ta, {'C06', 'C01', 'C02', 'C03', 'C19'},
                         nontrivial=lambda sc, o: True, dist=lambda sc, o: {'bar': bool(sc['ops'][1].get('progress_bar')), 'n_jobs': sc['pool']['n_jobs']})
    for sc, o in zip(ta, tobs):
        if o.get('harness_error') or o.get('stuck') or len(o.get('ops', [])) < 2:
            continue
        if o['ops'][1].get('outcome') != 'ok':
            chk.violation('later_call_like_fresh', {'scenario': sc}, {'outcome': o['ops'][1].get('outcome'), 'raised': o['ops'][1].get('exc')},
                          'a call after a timed-out apply task behaves as on a fresh pool', input_class='after_apply_timeout')
    chk.assumptions += ['the parameters held by kept-alive workers are compared by presence only (their identity is checked by C10)']

    def search():
        extra = [history(random.Random(chk.seed * 53 + i), 6) for i in range(600)]
        run_scenarios(chk, 'search', extra, {'C06', 'C01', 'C02', 'C03'})
    return search
