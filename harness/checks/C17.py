"""C17 — SIGINT yields KeyboardInterrupt after clean shutdown, or correct completion.
Theorems: Props/C17.lean (mask logic, handler restored, both outcomes safe in the protocol).
Correspondence: the two real context managers on a simulated SIGINT slot vs Mpire.Signal (random nested programs);
real map-family calls under DetSim with SIGINT injected at EVERY scheduling point of the caller."""
import random

from harness import gen, inject, oracles
from harness.common import Driver
from harness.detcheck import key_of, run_scenarios
from harness.pure import small


def sig_programs(chk, n):
    drv = Driver()
    rng = chk.rng
    lines, impl = [], []
    for _ in range(n):
        ops = []
        depth = 0
        for _ in range(rng.randint(0, 14)):
            r = rng.random()
            if r < .3:
                ops.append(rng.choice('DDX'))
                depth += 1
            elif r < .55 and depth:
                ops.append('e')
                depth -= 1
            elif r < .6 and depth:
                ops.append('r')         # the body raises: all enclosing managers are left exceptionally, the program ends
                depth = 0
                break
            else:
                ops.append('s')
        if rng.random() < .7:
            ops += ['e'] * depth
        h = rng.choice('ddi')
        done, obsline = small.sig_run(h, ops)
        lines.append('sig h=%s ops=%s' % (h, ','.join(done) or '-'))
        impl.append(obsline)
    for line, i, m in zip(lines, impl, drv.run(lines)):
        chk.count('DelayedKeyboardInterrupt/DisableKeyboardInterruptSignal vs Mpire.Signal', key=line, nontrivial=line.count('s,') + line.count('D') >= 2,
                  sample={'line': line, 'impl': i}, initial=line.split(' ')[1], balanced='depth=0' in i)
        if i != m:
            chk.mismatch('signal context managers vs Mpire.Signal', {'line': line}, i, m)
            if 'depth=0' in i and ('handler=' + line.split(' ')[1][2:]) not in i:
                chk.violation('handler_restored', {'line': line}, i, 'handler after == handler before', input_class='ctx_managers')
            if 'ESCAPED:' in i:
                chk.violation('interrupt_has_one_of_two_outcomes', {'line': line}, i,
                              'a SIGINT ends in KeyboardInterrupt or is dropped/deferred: no other exception comes out of the context managers',
                              input_class='ctx_managers_foreign_exception')


def base_scenarios(rng, n):
    out = []
    for _ in range(n):
        pool = {'n_jobs': rng.choice([1, 2, 3]), 'start_method': rng.choice(['fork', 'fork', 'threading'])}
        op = {'op': rng.choice(['map', 'imap', 'imap_unordered', 'map_unordered']), 'n': rng.randint(2, 10), 'chunk_size': rng.choice([1, 2]),
              'dur': {'kind': 'hash', 'salt': rng.randint(0, 99), 'unit': 0.01}}
        if rng.random() < .3:
            op['worker_lifespan'] = rng.choice([1, 2])
        if rng.random() < .3:
            op['progress_bar'] = True
        if rng.random() < .3:
            op['init'] = op['exit'] = True
        out.append({'seed': rng.randint(0, 10 ** 6), 'pool': pool, 'ops': [op]})
    # a lazy call that the consumer closes early (the pool shuts its workers down inside the generator's clean-up), and a call whose
    # progress bar is the first thing in the process that needs the bar's manager
    out.append({'seed': rng.randint(0, 10 ** 6), 'pool': {'n_jobs': rng.choice([2, 3]), 'start_method': 'fork'},
                'ops': [{'op': rng.choice(['imap', 'imap_unordered']), 'n': rng.randint(6, 10), 'chunk_size': 1, 'consume': rng.randint(1, 2), 'abandon': 'close',
                         'dur': {'kind': 'hash', 'salt': rng.randint(0, 99), 'unit': 0.01}}]})
    out.append({'seed': rng.randint(0, 10 ** 6), 'pool': {'n_jobs': rng.choice([1, 2]), 'start_method': rng.choice(['fork', 'threading'])},
                'ops': [{'op': rng.choice(['map', 'imap_unordered']), 'n': rng.randint(2, 6), 'chunk_size': 1, 'progress_bar': True,
                         'dur': {'kind': 'hash', 'salt': rng.randint(0, 99), 'unit': 0.01}}]})
    # threads cannot be interrupted: a worker thread notices the interrupt before it starts its next task, also in the middle of a
    # long chunk — the KeyboardInterrupt reaches the caller within about one task duration, not one chunk duration
    out.append({'seed': rng.randint(0, 10 ** 6), 'pool': {'n_jobs': 2, 'start_method': 'threading'}, 'latency_bound': 1.0,
                'ops': [{'op': rng.choice(['map', 'imap_unordered']), 'n': 40, 'chunk_size': 20, 'dur': {'kind': 'map', 'map': {}, 'default': 0.1}}]})
    return out


def judge(chk, sc, o):
    if o.get('harness_error'):
        return
    case = {'scenario': sc}
    if o.get('stuck'):
        chk.violation('no_hang', case, o['stuck'], 'the call ends within bounded time', input_class='sigint_hang@' + (o.get('injected') or {}).get('site', '?'))
        return
    if 'injected' not in o:
        return
    last = o['ops'][-1]
    if sc.get('latency_bound') and last.get('outcome') == 'raise' and last.get('t1') is not None and last['t1'] - o['injected']['t'] > sc['latency_bound']:
        chk.violation('interrupt_within_bounded_time', case, {'sigint_at': o['injected']['t'], 'call_ended_at': last['t1']},
                      'KeyboardInterrupt within %.1f virtual s of the signal (one task takes 0.1 s, one chunk 2 s)' % sc['latency_bound'],
                      input_class='sigint_latency')
    if sc.get('sigint_disposition') == 'ign' and last.get('outcome') == 'raise':
        chk.violation('ignored_interrupt_completes', case, {'raised': last.get('exc'), 'injected': o['injected']},
                      'a SIGINT the caller ignores has no effect: the call completes', input_class='sigint_ignored_yet_raised@' + o['injected'].get('site', '?'))
    elif last.get('outcome') == 'raise':
        left = [r for r in (last.get('alive_after') or []) if str(r).startswith('Worker-')]
        # (workers a keep_alive pool keeps for its next call are not what this is about: they are there after every call)
        if (last.get('exc') or {}).get('type') == 'KeyboardInterrupt' and left and not sc['pool'].get('keep_alive'):
            chk.violation('interrupt_propagates_after_workers_are_shut_down', case, {'workers_alive_when_the_interrupt_reached_the_caller': left, 'injected': o['injected']},
                          'KeyboardInterrupt propagates to the caller after all workers have been shut down', input_class='sigint_early@' + o['injected'].get('site', '?'))
        if (last.get('exc') or {}).get('type') != 'KeyboardInterrupt':
            chk.violation('keyboard_interrupt_or_completion', case, {'raised': last.get('exc'), 'injected': o['injected']},
                          'KeyboardInterrupt (or correct completion), nothing else', input_class='sigint_third_outcome@' + o['injected'].get('site', '?'))
    else:
        vs = []
        oracles.check_op(sc, o, len(o['ops']) - 1, lambda p, c, d: vs.append((p, c, d)))
        for p, c, d in vs:
            if p in ('C01', 'C02'):
                chk.violation('completion_is_correct', case, {'clause': c, 'detail': d, 'injected': o['injected']}, 'a call that completes returns fully correct results', input_class='sigint_wrong_result')
    lop = sc['ops'][-1]
    over = last.get('outcome') in ('ok', 'raise') and not (lop.get('consume', 'all') != 'all' and lop.get('abandon') != 'close')
    if over and not sc['pool'].get('keep_alive') and lop['op'] in oracles.MAPS and (last.get('alive_after') or []):
        # the call is over (returned, raised, or its generator was closed): what it started is gone — not only once the pool is left
        chk.violation('no_leak_after_interrupt', case, {'alive_when_the_call_was_over': last.get('alive_after'), 'injected': o['injected']},
                      'no worker or helper thread left once the call is over', input_class='sigint_leak_after_call@' + o['injected'].get('site', '?'))
    if o.get('alive_at_exit') or o.get('procs_alive'):
        chk.violation('no_leak_after_interrupt', case, {'alive': o.get('alive_at_exit'), 'procs': o.get('procs_alive'), 'injected': o['injected']},
                      'no worker or helper thread left', input_class='sigint_leak@' + o['injected'].get('site', '?'))
    if o.get('sigint_handler_after') != o.get('sigint_handler_before'):
        chk.violation('handler_restored', case, {'after': o.get('sigint_handler_after'), 'injected': o['injected']}, 'SIGINT handler unchanged', input_class='sigint_handler')
    if o.get('exit_outcome', 'ok') != 'ok':
        chk.violation('clean_shutdown', case, {'exit': o.get('exit_outcome')}, 'pool exit does not raise', input_class='sigint_exit')


def run(chk):
    rng = chk.rng
    sig_programs(chk, 600 if chk.tier == 'quick' else 6000)
    bases = base_scenarios(rng, 5 if chk.tier == 'quick' else 60)
    bobs = inject.baseline(bases)
    swept = []
    for sc, bo in zip(bases, bobs):
        if bo.get('stuck') or bo.get('harness_error'):
            continue
        swept += inject.sigint_sweep(sc, bo, stride=1, hi=bo['ops'][-1].get('main_points_end'))
    # a terminal Ctrl-C goes to the whole process group: the same sweep on a history in which workers were (re)started by the pool's
    # own threads (lifespan restarts on a kept-alive pool), with the signal delivered to every worker process as well
    gbases = []
    for _ in range(2 if chk.tier == 'quick' else 20):
        nj = rng.choice([2, 3])
        gbases.append({'seed': rng.randint(0, 10 ** 6), 'pool': {'n_jobs': nj, 'start_method': 'fork', 'keep_alive': True},
                       'ops': [{'op': 'map', 'n': rng.randint(4, 8), 'chunk_size': 1, 'worker_lifespan': rng.choice([1, 2]), 'dur': {'kind': 'hash', 'salt': rng.randint(0, 99), 'unit': 0.01}},
                               {'op': rng.choice(['map', 'imap_unordered']), 'n': rng.randint(3, 6), 'chunk_size': 1, 'progress_bar': rng.random() < .7,
                                'dur': {'kind': 'hash', 'salt': rng.randint(0, 99), 'unit': 0.01}}], 'same_func': True, 'group': True})
    gobs = inject.baseline(gbases)
    for sc, bo in zip(gbases, gobs):
        if bo.get('stuck') or bo.get('harness_error') or len(bo.get('ops', [])) < 2:
            continue
        lo = bo['ops'][0].get('main_points_end') or 1
        for s2 in inject.sigint_sweep(sc, bo, stride=1, lo=lo, hi=bo['ops'][-1].get('main_points_end')):
            s2['inject'][0]['group'] = True
            swept.append(s2)
    # the caller ignores SIGINT (a background job, nohup): the signal has no effect — the call completes with correct results,
    # at whichever moment it arrives (also inside the pool's deferred sections)
    ibases = base_scenarios(rng, 1 if chk.tier == 'quick' else 10)[:1 if chk.tier == 'quick' else 10]
    for sc in ibases:
        sc['sigint_disposition'] = 'ign'
        sc.pop('latency_bound', None)
    for sc, bo in zip(ibases, inject.baseline(ibases)):
        if not bo.get('stuck') and not bo.get('harness_error'):
            swept += inject.sigint_sweep(sc, bo, stride=1, hi=bo['ops'][-1].get('main_points_end'))
    # calls during which no signal arrives at all, for every kind of thing the caller can have installed for SIGINT: it is still
    # there afterwards
    plain = []
    for disp in ('ign', 'dfl', 'custom', 'dfl', 'ign', 'custom'):
        sc = base_scenarios(rng, 1)[0]
        sc['sigint_disposition'] = disp
        sc.pop('latency_bound', None)
        plain.append(sc)
    from harness import par
    for sc, o in zip(plain, par.run_all(plain)):
        if o.get('harness_error'):
            continue
        chk.count('no signal at all: the SIGINT disposition found is the one left behind', key=key_of(sc) + sc['sigint_disposition'], nontrivial=True,
                  sample={'scenario': sc, 'before': o.get('sigint_handler_before'), 'after': o.get('sigint_handler_after')}, disposition=sc['sigint_disposition'])
        if o.get('stuck') or (o.get('ops') or [{}])[-1].get('outcome') != 'ok':
            chk.violation('completion_is_correct', {'scenario': sc}, {'stuck': o.get('stuck'), 'outcome': (o.get('ops') or [{}])[-1].get('outcome'), 'exc': (o.get('ops') or [{}])[-1].get('exc')},
                          'a call during which no signal arrives completes', input_class='disposition_breaks_call')
        elif o.get('sigint_handler_after') != o.get('sigint_handler_before'):
            chk.violation('handler_restored', {'scenario': sc}, {'before': o.get('sigint_handler_before'), 'after': o.get('sigint_handler_after')}, 'SIGINT handler unchanged',
                          input_class='sigint_handler_' + sc['sigint_disposition'])
    obs = par.run_all(swept)
    outcomes = {}
    for sc, o in zip(swept, obs):
        if o.get('harness_error'):
            chk.notes.setdefault('harness_errors', []).append(str(o['harness_error'])[-300:])
            continue
        last = (o.get('ops') or [{}])[-1]
        oc = 'stuck' if o.get('stuck') else (last.get('exc') or {}).get('type') if last.get('outcome') == 'raise' else 'completed'
        outcomes[oc] = outcomes.get(oc, 0) + 1
        chk.count('SIGINT at every scheduling point of the caller (DetSim)', key=key_of(sc) + str(sc['inject']), nontrivial='injected' in o,
                  sample={'scenario': sc, 'outcome': oc, 'injected': o.get('injected')}, outcome=oc, op=sc['ops'][0]['op'], start=sc['pool']['start_method'],
                  handler_at_injection=(o.get('injected') or {}).get('handler', '-')[:25])
        judge(chk, sc, o)
    from harness import realproc
    realproc.group_sigint_suite(chk, quick=chk.tier != 'thorough')
    realproc.full_pipe_sigint_suite(chk, quick=chk.tier != 'thorough')
    chk.notes['sigint_sweep'] = {'bases': len(bases), 'injection_points': len(swept), 'outcomes': outcomes, 'exhaustive_per_base': True}
    chk.assumptions += ['delivery granularity is the scheduling point (primitive operation), not the bytecode',
                        'a terminal Ctrl-C (signal to every process of the group) is swept on kept-alive pools whose workers were restarted by the pool\'s own threads']

    def search():
        pass
    return search
