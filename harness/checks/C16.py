"""C16 — order_tasks assigns chunk i to worker i mod n_jobs.
Theorems: Props/C16.lean (every interleaving of assignments, result arrivals and resets).
Correspondence: the real WorkerComms assignment code as an op-sequence machine vs Mpire.Dispatch.runOps; whole calls under
DetSim (constructor and setter, lifespans, keep-alive call sequences): worker seen by each task vs chunk index."""
import random

from harness import gen, oracles
from harness.common import Driver
from harness.detcheck import run_scenarios
from harness.pure import assign


def _sensitive_pairs():
    """(n, n_splits) for which cutting with the running remainder and cutting at ceil(k * size) give different chunks"""
    import math
    out = []
    for n in range(5, 41):
        for ns in range(2, min(n, 14)):
            cs = n / ns
            a = oracles.spec_sizes(n, None, ns, 1)
            b, prev = [], 0
            k = 1
            while prev < n:
                e = min(n, math.ceil(k * cs))
                if e > prev:
                    b.append(e - prev)
                    prev = e
                k += 1
            if a != b:
                out.append((n, ns))
    return out


SENSITIVE = _sensitive_pairs() or [(15, 9)]


def order_scenarios(rng, n):
    scs = []
    for _ in range(n):
        sc = gen.gen_success_scenario(rng, n_ops=rng.choice([1, 2, 3]))
        via_setter = rng.random() < .4
        sc['pool'].pop('order_tasks', None)
        if via_setter:
            # before the first call, or on a live keep-alive pool after a call ran without it
            live = len(sc['ops']) >= 2 and rng.random() < .5
            sc['ops'].insert(1 if live else 0, {'op': 'set', 'what': 'order_tasks', 'value': True})
            sc['order_tasks_effective'] = True
            if live:
                sc['pool']['keep_alive'] = True
                sc['setter_on_live_pool'] = True
        else:
            sc['pool']['order_tasks'] = True
        if rng.random() < .5 or sc.get('setter_on_live_pool'):
            sc['pool']['keep_alive'] = True
        for op in sc['ops']:
            if op['op'] == 'set':
                continue
            if op.get('input') in ('list', 'range') and rng.random() < .2:
                # an input that has a length without being a sequence (a set, a dict view, a class with __len__ and __iter__): chunked by
                # its length like a list
                op['input'] = 'sized'
                if rng.random() < .7:
                    op.pop('chunk_size', None)
                    op.pop('iterable_len', None)
                    if rng.random() < .5:
                        op['n_splits'] = rng.choice([2, 3, 5])
                        op['n'] = max(op.get('n', 0), rng.randint(6, 20))
            if op.get('input') == 'nd' and rng.random() < .5:
                op['input'] = 'list'
            elif op.get('input') == 'nd':
                # numpy input is cut into row blocks first; every block is a chunk of its own, whatever chunk_size was asked for
                op['n'] = max(op['n'], 8)
                if rng.random() < .6:
                    op['chunk_size'] = rng.choice([2, 3])
                    op.pop('n_splits', None)
            if op['n'] < 4:
                op['n'] = rng.randint(4, 24)
            if op.get('input') == 'nd' and 'chunk_size' not in op and rng.random() < .4:
                # an iterable_len that over-estimates the array is clamped to the number of rows: the row blocks are those of the
                # real length
                op['n'] = max(op['n'], 10)
                op['n_splits'] = rng.choice([2, 3, 4])
                op['iterable_len'] = op['n'] + rng.randint(2, 12)
            elif op.get('iterable_len') is not None:
                op['iterable_len'] = min(op['iterable_len'], op['n'])
            if rng.random() < .25:
                # a look-ahead bound below the chunk size slows the call down but does not change which chunk goes where
                op['chunk_size'] = rng.choice([3, 4, 5])
                op.pop('n_splits', None)
                op['max_tasks_active'] = rng.choice([1, 2])
                op['n'] = max(op['n'], 12)
                if op.get('iterable_len') is not None:
                    op['iterable_len'] = op['n']
        if rng.random() < .1:
            # numpy input whose iterable_len over-estimates the array (clamped to the number of rows)
            op = next(o for o in sc['ops'] if o['op'] != 'set')
            for k in ('chunk_size', 'max_tasks_active', 'nd_dims'):
                op.pop(k, None)
            op.update(input='nd', elem='scalar', n=rng.randint(10, 24), n_splits=rng.choice([2, 3, 4]))
            op['iterable_len'] = op['n'] + rng.randint(2, 12)
        for op in sc['ops']:
            if op['op'] == 'set' or op.get('input') == 'nd' or 'max_tasks_active' in op:
                continue
            r = rng.random()
            if r < .25:
                # lengths at which a real chunk size is sensitive to HOW it is rounded (running remainder, as documented, vs
                # rounding k * size directly): chunk i must still be chunk i of the documented rule
                op['n'], op['n_splits'] = rng.choice(SENSITIVE)
                op.pop('chunk_size', None)
                op.pop('iterable_len', None)
            elif r < .35:
                # both given: chunk_size decides, n_splits is ignored
                op['n'] = rng.randint(12, 30)
                op['chunk_size'] = rng.choice([2, 3, 4])
                op['n_splits'] = rng.choice([2, 3])
                op.pop('iterable_len', None)
        if rng.random() < .3:
            # apply submissions before / between the calls advance the same counter: the numbering of a call still starts at 0
            k = rng.randint(1, 5)
            sc['ops'].insert(rng.randrange(len(sc['ops']) + 1) if not via_setter else rng.randint(1, len(sc['ops'])),
                             {'op': 'apply_batch', 'tasks': [{'idx': i} for i in range(k)], 'dur': {'kind': 'map', 'map': {}, 'default': 0.01}, 'get_timeout': 30})
        scs.append(sc)
        if rng.random() < .12:
            # apply submissions made while a lazy call is open (its later chunks are dispatched when the consumer comes back):
            # chunk i of that call still goes to worker i mod n_jobs
            nj = rng.choice([2, 3, 4])
            nn = rng.randint(8, 16)
            k = rng.randint(1, 3)
            scs.append({'seed': rng.randint(0, 10 ** 6), 'pool': {'n_jobs': nj, 'start_method': rng.choice(['fork', 'threading']), 'order_tasks': True,
                                                                  'pass_worker_id': rng.random() < .5},
                        'ops': [{'op': rng.choice(['imap', 'imap_unordered']), 'n': nn, 'chunk_size': 1, 'max_tasks_active': rng.choice([1, 2, 3]),
                                 'consume': rng.randint(1, 3), 'elem': 'scalar'},
                                {'op': 'apply_batch', 'tasks': [{'idx': i} for i in range(k)], 'dur': {'kind': 'map', 'map': {}, 'default': 0.0}, 'get_timeout': 30},
                                {'op': 'resume', 'of': 0}],
                        'relax_shape': True})
        if rng.random() < .15:
            # apply submissions while order_tasks is off move the pool's task counter; order_tasks is then switched on for the live
            # workers: the next call still numbers its chunks from 0
            nj = rng.choice([2, 3, 4])
            k = rng.choice([x for x in range(1, 2 * nj + 2) if x % nj])
            ops = [{'op': 'apply_batch', 'tasks': [{'idx': i} for i in range(k)], 'dur': {'kind': 'map', 'map': {}, 'default': 0.01}, 'get_timeout': 30},
                   {'op': 'set', 'what': 'order_tasks', 'value': True},
                   {'op': rng.choice(['map', 'imap', 'map_unordered', 'imap_unordered']), 'n': rng.randint(nj + 1, 4 * nj), 'chunk_size': rng.choice([1, 2]), 'elem': 'scalar'}]
            if rng.random() < .5:
                ops.insert(0, {'op': rng.choice(['map', 'map_unordered']), 'n': rng.randint(2, 7), 'chunk_size': 1, 'elem': 'scalar'})
            scs.append({'seed': rng.randint(0, 10 ** 6), 'pool': {'n_jobs': nj, 'start_method': rng.choice(['fork', 'threading']), 'keep_alive': True},
                        'ops': ops, 'relax_shape': True, 'order_tasks_effective': True, 'setter_on_live_pool': True, 'all_valid': True})
        if rng.random() < .12:
            # order_tasks switched on again (it already is) while a lazy call is open: the numbering of that call goes on where it was
            nj = rng.choice([2, 3, 4])
            nn = rng.randint(3 * nj, 5 * nj)
            scs.append({'seed': rng.randint(0, 10 ** 6), 'pool': {'n_jobs': nj, 'start_method': rng.choice(['fork', 'threading']), 'order_tasks': True,
                                                                  'pass_worker_id': rng.random() < .5},
                        'ops': [{'op': rng.choice(['imap', 'imap_unordered']), 'n': nn, 'chunk_size': 1, 'max_tasks_active': rng.choice([1, 2, nj + 1]),
                                 'consume': rng.randint(1, 3), 'elem': 'scalar'},
                                {'op': 'set', 'what': 'order_tasks', 'value': True},
                                {'op': 'resume', 'of': 0}],
                        'relax_shape': True})
    return scs


def run(chk):
    drv = Driver()
    rng = chk.rng
    lines, impl = [], []
    for _ in range(300 if chk.tier == 'quick' else 3000):
        n = rng.randint(1, 6)
        order = rng.random() < .6
        ops = assign.gen_ops(rng, n)
        if _ % 40 == 0:
            # a very long call: thousands of chunks, no reset in between (the running index must not wrap)
            ops = ['A' if rng.random() < .9 else 'C:%d' % rng.randrange(n) for _k in range(rng.choice([4500, 9000]))]
            order = True
        lines.append('assign order=%d n=%d ops=%s' % (order, n, ','.join(ops) or '-'))
        impl.append(assign.run_ops(n, order, ops))
    out = drv.run(lines)
    for line, i, m in zip(lines, impl, out):
        chk.count('WorkerComms assignment machine vs Mpire.Dispatch.runOps', key=line, nontrivial=line.count('A') >= 2,
                  sample={'line': line, 'impl': i}, order=line.split(' ')[1], resets='yes' if ',R' in line else 'no')
        if i != m:
            chk.mismatch('assignment machine', {'line': line}, i, m)
        if 'order=1' in line:
            n = int(line.split(' ')[2][2:])
            for tok in i[3:].split(','):
                if tok:
                    k, w = map(int, tok.split(':'))
                    if w != k % n:
                        chk.violation('chunk_i_to_worker_i_mod_n', {'line': line}, {'chunk': k, 'worker': w}, 'worker == chunk index mod n_jobs', input_class='assign')
    scs = order_scenarios(rng, 250 if chk.tier == 'quick' else 4000)
    run_scenarios(chk, 'whole calls with order_tasks under DetSim', scs, {'C16'},
                  nontrivial=lambda sc, o: len(o.get('calls', [])) > sc['pool']['n_jobs'],
                  dist=lambda sc, o: {'via': ('setter-live' if sc.get('setter_on_live_pool') else 'setter') if sc.get('order_tasks_effective') else 'constructor', 'keep_alive': bool(sc['pool'].get('keep_alive')),
                                      'lifespan': any(op.get('worker_lifespan') for op in sc['ops']), 'n_jobs': sc['pool']['n_jobs']})

    def search():
        run_scenarios(chk, 'search', order_scenarios(random.Random(chk.seed * 5 + 1), 800), {'C16'})
    return search
