"""C03 — every call terminates: no deadlock or livelock for any valid configuration.
Theorems: Props/C03.lean (no reachable deadlock state + strictly decreasing measure in the protocol, the dispatcher and the
worker instance).  Correspondence: dispatcher and protocol traces of real calls under DetSim folded through the Lean step
functions (shared with C02/C15); the real run itself is the search: under DetSim a deadlock (nobody runnable, no deadline) or
a livelock (step / virtual-time budget) of the REAL code is reported with every thread's wait reason.
Corners the test-suite excludes are generated on purpose: max_tasks_active below the chunk size, lifespan 1 with threading,
keep_alive with progress bar and explicit stop_and_join, empty inputs, setters between calls, apply mode."""
import random

from harness import gen, oracles
from harness.checks.C15 import look_scenarios
from harness.checks.C11 import transducer_suite
from harness.detcheck import proto_correspondence, run_scenarios


def corner_scenarios(rng, n):
    out = []
    for k in range(n):
        c = k % 8
        pool = gen.gen_pool(rng)
        nn = rng.randint(0, 30)
        op = {'op': rng.choice(['map', 'imap', 'imap_unordered', 'map_unordered']), 'n': nn, 'dur': {'kind': 'hash', 'salt': rng.randint(0, 99), 'unit': 0.005}}
        ops = [op]
        if c == 0:
            op['chunk_size'] = rng.choice([3, 5, 8, 2.5])
            op['max_tasks_active'] = rng.choice([1, 2])
        elif c == 1:
            pool['start_method'] = 'threading'
            op['worker_lifespan'] = 1
            op['chunk_size'] = rng.choice([1, 2])
        elif c == 2:
            pool['keep_alive'] = True
            op['progress_bar'] = True
            ops += [{'op': 'map', 'n': 3, 'progress_bar': rng.random() < .5}, {'op': 'stop_and_join'}]
        elif c == 3:
            op['n'] = 0
            op['progress_bar'] = rng.random() < .5
            op['input'] = rng.choice(['list', 'nd', 'gen'])
            if op['input'] == 'gen':
                op['iterable_len'] = 0
        elif c == 4:
            pool['keep_alive'] = True
            op['progress_bar'] = rng.random() < .5
            ops += [{'op': 'set', 'what': rng.choice(['pass_worker_id', 'use_worker_state']), 'value': True}, {'op': 'map', 'n': 4}]
        elif c == 5:
            ops = [gen.gen_apply_op(rng, pool['n_jobs'], with_failures=False), {'op': 'stop_and_join'}]
            pool.pop('keep_alive', None)
            pool.pop('order_tasks', None)
        elif c == 6:
            op['input'] = 'nd'
            op['chunk_size'] = rng.choice([None, 2, 2.5])
            if op['chunk_size'] is None:
                op.pop('chunk_size')
                op['n_splits'] = rng.randint(1, nn + 2)
            pool['enable_insights'] = True
        else:
            op['worker_lifespan'] = rng.choice([1, 2])
            op['init'] = op['exit'] = True
            op['progress_bar'] = True
            pool['keep_alive'] = rng.random() < .5
            ops.append({'op': 'stop_and_join'})
        for o in ops:
            if o['op'] in oracles.MAPS and o.get('input') == 'gen' and 'chunk_size' not in o and 'iterable_len' not in o:
                o['iterable_len'] = o['n']
        out.append({'seed': rng.randint(0, 10 ** 6), 'pool': pool, 'ops': ops, 'corner': c})
    return out


def run(chk):
    rng = chk.rng
    transducer_suite(chk, 500 if chk.tier == 'quick' else 10000)
    from harness.pure import resiter
    from harness.common import Driver as _Driver
    resiter.tie(chk, _Driver(), 150 if chk.tier == 'quick' else 3000)      # the caller's last wait: the iterator ends
    N = 300 if chk.tier == 'quick' else 6000
    scs = [gen.gen_success_scenario(rng) for _ in range(N)]
    for sc in scs:
        if rng.random() < .35:
            sc['rules'] = gen.schedule_rules(rng, sc['pool']['n_jobs'])       # "for every schedule": adversarial ones on purpose
    obs = run_scenarios(chk, 'random valid configurations under DetSim (deadlock/livelock detector on the real code)', scs, {'C03'},
                        nontrivial=lambda sc, o: o.get('steps', 0) > 200,
                        dist=lambda sc, o: {'start': sc['pool']['start_method'], 'ops': len(sc['ops']), 'adversarial_schedule': bool(sc.get('rules')), 'lifespan': sc['ops'][0].get('worker_lifespan') is not None,
                                            'max_active_lt_chunk': bool(sc['ops'][0].get('max_tasks_active') and sc['ops'][0].get('chunk_size') and sc['ops'][0]['max_tasks_active'] < sc['ops'][0]['chunk_size'])})
    proto_correspondence(chk, 'protocol traces vs Mpire.Proto.step', scs, obs)
    cs = corner_scenarios(rng, 240 if chk.tier == 'quick' else 4000)
    for sc in cs:
        if rng.random() < .3:
            sc['rules'] = gen.schedule_rules(rng, sc['pool']['n_jobs'])
    run_scenarios(chk, 'corner configurations the test-suite excludes', cs, {'C03'},
                  nontrivial=lambda sc, o: True, dist=lambda sc, o: {'corner': ['max_active<chunk', 'threading+lifespan1', 'keep_alive+bar+join', 'empty input', 'setter between calls',
                                                                                'apply+join', 'numpy+insights', 'lifespan+hooks+bar+join'][sc['corner']]})
    # an input that never ends by itself, bounded by iterable_len alone (also when iterable_len falls exactly on a chunk boundary)
    es = []
    for _ in range(40 if chk.tier == 'quick' else 600):
        c = rng.choice([1, 2, 3, 4, 2.5])
        k = rng.randint(1, 6)
        il = int(k * c) if rng.random() < .6 else rng.randint(1, 20)
        es.append({'seed': rng.randint(0, 10 ** 6), 'pool': {'n_jobs': rng.choice([1, 2, 3]), 'start_method': rng.choice(['fork', 'threading'])}, 'max_steps': 150000,
                   'ops': [{'op': rng.choice(['map', 'imap', 'imap_unordered', 'map_unordered']), 'n': il, 'input': 'gen', 'gen_endless': True, 'iterable_len': il,
                            'chunk_size': c, 'elem': 'scalar', 'max_tasks_active': rng.choice([None, 2, 5])}], 'all_valid': True})
        if es[-1]['ops'][0]['max_tasks_active'] is None:
            es[-1]['ops'][0].pop('max_tasks_active')
    run_scenarios(chk, 'an endless input bounded by iterable_len', es, {'C03', 'C01'}, nontrivial=lambda sc, o: True,
                  dist=lambda sc, o: {'on_chunk_boundary': sc['ops'][0]['iterable_len'] % max(1, int(sc['ops'][0]['chunk_size'])) == 0, 'op': sc['ops'][0]['op']})
    fs = [gen.gen_fail_scenario(rng) for _ in range(150 if chk.tier == 'quick' else 3000)]
    for sc in fs:
        if rng.random() < .3:
            sc['rules'] = gen.schedule_rules(rng, sc['pool']['n_jobs'])
    run_scenarios(chk, 'failing calls: the failure path terminates', fs, {'C03'}, nontrivial=lambda sc, o: True,
                  dist=lambda sc, o: {'outcome': (o.get('ops') or [{}])[0].get('outcome')})
    tp = gen.two_pool_scenarios(rng, 40 if chk.tier == 'quick' else 600)
    run_scenarios(chk, 'two pools at work in one process: every call of either terminates', tp, {'C03'}, nontrivial=lambda sc, o: True,
                  dist=lambda sc, o: {'other_lifespan': sc['ops'][0]['lifespan'], 'first_pool_stopped_meanwhile': any(x['op'] in ('stop_and_join', 'terminate') for x in sc['ops'])})
    # apply submissions that run into their time limit or whose worker_init fails, then (or meanwhile) more work on the same pool with a
    # progress bar or with several jobs pending: everything that was asked for comes to an end
    ap = []
    for _ in range(40 if chk.tier == 'quick' else 600):
        nj = rng.choice([1, 2, 3])
        if rng.random() < .5:
            first = {'op': 'apply_batch', 'tasks': [{'idx': i} for i in range(rng.randint(1, 3))], 'task_timeout': 0.2, 'get_timeout': 30,
                     'dur': {'kind': 'map', 'map': {'0': rng.choice([5.0, 600.0])}, 'default': 0.01}}
            later = {'op': rng.choice(['map', 'imap_unordered', 'imap']), 'n': rng.randint(2, 8), 'chunk_size': 1, 'progress_bar': True}
            ap.append({'seed': rng.randint(0, 10 ** 6), 'pool': {'n_jobs': nj, 'start_method': 'fork', **({'keep_alive': True} if rng.random() < .5 else {})}, 'ops': [first, later]})
        else:
            k = rng.randint(2, 6)
            ap.append({'seed': rng.randint(0, 10 ** 6), 'pool': {'n_jobs': nj, 'start_method': rng.choice(['fork', 'threading'])}, 'pending_apply': True,
                       'ops': [{'op': 'apply_batch', 'tasks': [{'idx': i} for i in range(k)], 'init': True, 'init_dur': rng.choice([0.0, 0.3]),
                                'fail': {'init': 'all', 'exc': rng.choice(['ValueError', 'Custom'])}, 'dur': {'kind': 'map', 'map': {}, 'default': 0.01}, 'get_timeout': 30}]})
    aobs = run_scenarios(chk, 'apply submissions that time out or whose worker_init fails, with more work around them (DetSim)', ap, {'C03'}, nontrivial=lambda sc, o: True,
                         dist=lambda sc, o: {'kind': 'init fails, several pending' if sc.get('pending_apply') else 'time limit, then a bar'})
    for sc, o in zip(ap, aobs):
        if o.get('harness_error') or o.get('stuck') or not sc.get('pending_apply') or not o.get('ops'):
            continue
        # (a result that is still not there after 30 virtual seconds is a call that does not end)
        late = [a[0] for a in o['ops'][0].get('apply', []) if a[1] == 'raise' and a[2] == 'TimeoutError']
        if late:
            chk.violation('terminates', {'scenario': sc}, {'results_never_ready': late}, 'every submitted job gets its outcome', input_class='apply_pending_forever')
    from harness import realproc
    realproc.pipe_suite(chk, quick=chk.tier != 'thorough')
    chk.assumptions += ['pipe capacity and feeder threads of multiprocessing.Queue are not modelled (DetSim queues are unbounded): payloads above the pipe capacity are explored on real processes (four probes in the quick tier, a matrix in the thorough tier); OS scheduling fairness is assumed',
                        'user functions terminate; unpicklable payloads are excluded by the property']

    def search():
        extra = [gen.gen_success_scenario(random.Random(chk.seed * 61 + i)) for i in range(1500)]
        run_scenarios(chk, 'search', extra, {'C03'})
    return search
