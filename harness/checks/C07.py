"""C07 — abrupt worker death is contained at every crash point.
Theorems: Props/C07.lean (no false positive of the death scan for every interleaving; a killed worker is detected; containment).
Correspondence: random event sequences of the death-scan model are replayed ... on the model only (the scan's reads are not
separable in the real thread), so the tie is behavioural: for small workloads EVERY scheduling point of EVERY victim instance at
which it holds no lock and has announced itself is a crash point (DetSim, exhaustive per base, counted), x (n_jobs, lifespan,
chunking, progress bar, map|imap|apply, idle keep-alive gap); outcome class compared with what the theorems predict."""
import copy
import random

from harness import inject, oracles, par
from harness.common import Driver
from harness.detcheck import key_of

BOUND = 4.0     # virtual seconds from the kill to the end of the call: scan period 0.1 + terminate patience (~1.2) + slack


def base_scenarios(rng, n):
    out = []
    kinds = ['apply', 'map', 'imap', 'apply', 'imap_unordered', 'map_unordered', 'apply_after_map']       # stratified: every run sweeps apply pools too
    for b in range(n):
        pool = {'n_jobs': rng.choice([1, 2, 3]), 'start_method': 'fork'}
        kind = kinds[b % len(kinds)]
        if kind == 'apply_after_map':
            # a kept-alive pool whose workers were started by a map call and which is then used through apply_async: some workers
            # are idle while the apply tasks run on others
            pool['n_jobs'] = rng.choice([2, 3])
            pool['keep_alive'] = True
            k = rng.randint(1, pool['n_jobs'] - 1)
            ops = [{'op': 'map', 'n': rng.randint(2, 5), 'chunk_size': 1, 'dur': {'kind': 'hash', 'salt': rng.randint(0, 99), 'unit': 0.01}},
                   {'op': 'apply_batch', 'tasks': [{'idx': i} for i in range(k)], 'dur': {'kind': 'map', 'map': {}, 'default': 0.3}, 'get_timeout': 30}]
            out.append({'seed': rng.randint(0, 10 ** 6), 'pool': pool, 'ops': ops, 'judge_op': 1, 'same_func': True})
            continue
        if kind == 'apply':
            k = rng.randint(2, 6)
            op = {'op': 'apply_batch', 'tasks': [{'idx': i} for i in range(k)], 'dur': {'kind': 'map', 'map': {}, 'default': 0.02}, 'get_timeout': 30}
            if rng.random() < .5:
                op['init'] = True
                op['init_dur'] = 0.02
            # what the pool is used for afterwards: joining it, another call
            # (stratified: the two apply bases of every run of seven are followed by a join and by a map call; further ones cycle on)
            follows = [[{'op': 'stop_and_join'}], [{'op': 'map', 'n': 4, 'chunk_size': 1}],
                       [{'op': 'apply_batch', 'tasks': [{'idx': 7}, {'idx': 8}], 'dur': {'kind': 'map', 'map': {}, 'default': 0.01}, 'get_timeout': 30}, {'op': 'stop_and_join'}], []]
            follow = follows[(b // len(kinds) * 2 + (0 if b % len(kinds) == 0 else 1)) % len(follows)]
            out.append({'seed': rng.randint(0, 10 ** 6), 'pool': pool, 'ops': [op] + follow, 'judge_op': 0, 'same_func': True})
            continue
        else:
            op = {'op': kind, 'n': rng.randint(2, 8), 'chunk_size': rng.choice([1, 2]), 'dur': {'kind': 'hash', 'salt': rng.randint(0, 99), 'unit': 0.01}}
            if rng.random() < .3 or kind == 'map':
                # (stratified: the `map` base of every run has restarts, so that later instances of a worker id are crash points too)
                op['worker_lifespan'] = rng.choice([1, 2])
                op['n'] = max(op['n'], 5)
            if rng.random() < .3:
                op['progress_bar'] = True
            if rng.random() < .4:
                op['init'] = op['exit'] = True
            if rng.random() < .3:
                pool['keep_alive'] = True       # the workers are told to pause, not to stop, when the call ends
        out.append({'seed': rng.randint(0, 10 ** 6), 'pool': pool, 'ops': [op]})
    return out


def idle_scenarios(rng, n):
    out = []
    for _ in range(n):
        nj = rng.choice([2, 3])
        victim = rng.randrange(nj)
        if rng.random() < .5:
            ops = [{'op': 'map', 'n': rng.randint(2, 8), 'chunk_size': 1}, {'op': 'sleep', 'd': 0.3}, {'op': 'kill_idle', 'victim': victim},
                   {'op': 'sleep', 'd': rng.choice([0.0, 0.05, 0.5])}, {'op': rng.choice(['map', 'imap', 'map_unordered']), 'n': rng.randint(2, 8), 'chunk_size': 1},
                   {'op': 'map', 'n': 5, 'chunk_size': 1}]
            out.append({'seed': rng.randint(0, 10 ** 6), 'pool': {'n_jobs': nj, 'start_method': 'fork', 'keep_alive': True}, 'ops': ops, 'same_func': True, 'idle': 'keep_alive'})
        else:
            k = rng.randint(2, 5)
            ops = [{'op': 'apply_batch', 'tasks': [{'idx': i} for i in range(k)], 'dur': {'kind': 'map', 'map': {}, 'default': 0.01}},
                   {'op': 'sleep', 'd': 0.3}, {'op': 'kill_idle', 'victim': victim}, {'op': 'sleep', 'd': rng.choice([0.0, 0.05, 0.5])},
                   {'op': 'apply_batch', 'tasks': [{'idx': i} for i in range(k)], 'dur': {'kind': 'map', 'map': {}, 'default': 0.01}, 'get_timeout': 30}]
            out.append({'seed': rng.randint(0, 10 ** 6), 'pool': {'n_jobs': nj, 'start_method': 'fork'}, 'ops': ops, 'idle': 'apply'})
    return out


def judge(chk, sc, o):
    if o.get('harness_error'):
        return 'harness'
    case = {'scenario': sc}
    if o.get('roles_missing') and sc['ops'][sc.get('judge_op', 0)]['op'] == 'apply_batch':
        # what the victim had taken / acknowledged / announced is read from the trace by the roles of the comms objects; without
        # them a crash point cannot be told from the documented windows: a broken tie, not a verdict
        chk.mismatch('crash-point classification needs the roles of the WorkerComms objects', {'roles_missing': o['roles_missing']}, 'trace without roles', 'n/a')
        return 'unclassifiable'
    if o.get('stuck'):
        ph = (o.get('injected') or {}).get('victim_phase')
        if sc['ops'][0]['op'] == 'apply_batch' and ph in ('apply_pill_taken', 'apply_task_taken'):
            # known: the task is lost in the dequeue window (and what the victim took is never acknowledged, so joining blocks)
            chk.violation('apply_death_isolated', case, {'stuck': o['stuck'], 'injected': o.get('injected')}, 'at most the one task the dead worker was running fails',
                          input_class='apply_death_dequeue_window')
        elif sc['ops'][0]['op'] == 'apply_batch' and sc['ops'][(o.get('injected') or {}).get('opi', 0)]['op'] == 'stop_and_join' and \
                (ph == 'pill_taken' or (ph == 'acked' and (o.get('injected') or {}).get('exit_phase') == 'pill')):
            # the victim had taken its poison pill (acknowledged or not) and had not marked itself dead yet: it is replaced, and the
            # replacement never gets a pill
            chk.violation('apply_death_isolated', case, {'stuck': o['stuck'], 'injected': o.get('injected')}, 'joining the pool ends although a worker died while it was being stopped',
                          input_class='apply_death_taking_poison_pill')
        elif sc['ops'][0]['op'] == 'apply_batch' and ph == 'results_sent':
            chk.violation('apply_death_isolated', case, {'stuck': o['stuck'], 'injected': o.get('injected')}, 'the pool stays usable (it can be joined) after the death',
                          input_class='apply_death_after_results_before_ack')
        else:
            chk.violation('no_hang_after_death', case, {'stuck': o['stuck'], 'injected': o.get('injected')}, 'the call raises or completes within bounded time',
                          input_class='death_hang')
        return 'stuck'
    if 'injected' not in o:
        return 'skipped:' + o.get('inject_skipped', 'point not reached')
    opi = sc.get('judge_op', len(sc['ops']) - 1)
    op, last = sc['ops'][opi], o['ops'][opi]
    inj = o['injected']
    if inj.get('opi', opi) != opi:
        return 'skipped:killed during a follow-up operation'
    # the pool is used again after the death in an apply batch: joining and later calls work
    window_phase = inj.get('victim_phase') in ('apply_pill_taken', 'apply_task_taken', 'init_announced', 'init_ran', 'exit_announced', 'exit_ran')
    for k in range(opi + 1, len(sc['ops'])):
        fo, foo = sc['ops'][k], (o['ops'][k] if k < len(o['ops']) else {})
        okk = foo.get('outcome') == 'ok'
        if okk and fo['op'] == 'map':
            okk = foo.get('result') == [oracles.value_of(i) for i in range(fo['n'])]
        if fo['op'] == 'map' and foo.get('outcome') == 'raise' and (foo.get('exc') or {}).get('type') == 'RuntimeError':
            break       # the death was noticed only once the map call had begun: a subsequent map-family call raises RuntimeError (as stated)
        if okk and fo['op'] == 'apply_batch':
            okk = all(a[1] == 'ok' and a[2] == oracles.value_of(a[0]) for a in foo.get('apply', []))
        if not okk and not window_phase:
            chk.violation('pool_usable_after_apply_death', case, {'follow_up_op': k, 'outcome': foo.get('outcome'), 'exc': foo.get('exc'), 'apply': foo.get('apply'), 'injected': inj},
                          'after a worker died in an apply batch the pool can be joined and used again', input_class='apply_death_followup')
            break
    cls = None
    if op['op'] == 'apply_batch':
        if last.get('outcome') != 'ok':
            chk.violation('apply_death_isolated', case, {'outcome': last.get('exc'), 'injected': inj}, 'only the task of the dead worker fails', input_class='apply_death')
            return 'apply-raise'
        bad = [a for a in last.get('apply', []) if a[1] != 'ok']
        wrong = [a for a in last.get('apply', []) if a[1] == 'ok' and a[2] != oracles.value_of(a[0])]
        if wrong:
            chk.violation('apply_values_correct_after_death', case, {'wrong': wrong, 'injected': inj}, 'every other task completes correctly', input_class='apply_death_value')
        if bad and not inj.get('in_user_function') and inj.get('victim_phase') == 'idle' and len(bad) >= 1:
            # the victim was not running any task, yet the task with job id 0 was failed
            chk.violation('apply_death_isolated', case, {'failed': bad, 'injected': inj}, 'an idle worker\'s death fails no task',
                          input_class='apply_death_job0_alias')
        elif len(bad) > 1 or any(a[2] != 'RuntimeError' for a in bad):
            window = inj.get('victim_phase') in ('apply_pill_taken', 'apply_task_taken')
            in_hook = False
            if inj.get('victim_phase') in ('init_announced', 'exit_announced', 'init_ran', 'exit_ran'):
                # attributed to the INIT/EXIT job: the known behaviour is that the pending tasks fail fast with RuntimeError.
                # A task that is never settled (lost) at such a point is a different failure and is not covered by the finding
                window = False
                in_hook = all(a[2] == 'RuntimeError' for a in bad)
            chk.violation('apply_death_isolated', case, {'failed': bad, 'injected': inj}, 'at most the one task the dead worker was running fails, with RuntimeError',
                          input_class='apply_death_dequeue_window' if window else 'apply_death_in_worker_init' if in_hook else 'apply_death')
        cls = 'apply:%d-failed' % len(bad)
    else:
        if last.get('outcome') == 'raise':
            if (last.get('exc') or {}).get('type') != 'RuntimeError':
                chk.violation('death_raises_runtime_error', case, {'raised': last.get('exc'), 'injected': inj}, 'RuntimeError naming the dead worker', input_class='death_wrong_error')
            cls = 'RuntimeError'
        else:
            vs = []
            oracles.check_op(sc, o, opi, lambda p, c, d: vs.append((p, c, d)))
            for p, c, d in vs:
                if p in ('C01', 'C02'):
                    chk.violation('completes_only_if_correct', case, {'clause': c, 'detail': d, 'injected': inj},
                                  'a call that returns after a worker death returns complete and correct results', input_class='death_wrong_result')
                elif p == 'C11' and c in ('exit_results_conserved', 'exit_results_account_for_every_task'):
                    # the victim died inside (or before) its worker_exit: its exit result was never delivered, so the call may not
                    # complete as if nothing had happened ("completes correctly when every result had already been delivered")
                    chk.violation('completes_only_if_exit_results_complete', case, {'clause': c, 'detail': d, 'injected': inj},
                                  'a call that returns after a worker death returns complete results, exit results included',
                                  input_class='death_exit_result_lost')
            cls = 'completed'
        if last.get('t1') is not None and last['t1'] - inj['t'] > BOUND:
            chk.violation('death_detected_promptly', case, {'kill_at': inj['t'], 'call_ended_at': last['t1']}, f'within {BOUND} virtual seconds', input_class='death_latency')
    if o.get('alive_at_exit') or o.get('procs_alive') or o.get('exit_outcome', 'ok') != 'ok':
        chk.violation('clean_shutdown_after_death', case, {'alive': o.get('alive_at_exit'), 'procs': o.get('procs_alive'), 'exit': o.get('exit_outcome'), 'injected': inj},
                      'the pool shuts down cleanly', input_class='death_leak')
    return cls


def graceful_tie(chk, drv, scs, obs):
    """map-family calls with a worker_exit hook in which the victim was killed on its way out (after its poison pill): how the call
    ended — raised, or returned with complete / incomplete exit results — must be one of the ends Mpire.GracefulStop allows for a
    worker killed in that phase under the repaired stop_and_join (`final`)"""
    suite = 'a worker killed on its way out of a call with worker_exit vs Mpire.GracefulStop (variant final)'
    cases = []
    for sc, o in zip(scs, obs):
        inj = o.get('injected') or {}
        op = sc['ops'][0]
        if len(sc['ops']) != 1 or op['op'] not in oracles.MAPS or not op.get('exit') or sc['pool'].get('keep_alive') or o.get('harness_error') \
                or inj.get('exit_phase') in (None, 'unclassified') or op.get('worker_lifespan') or op.get('fail'):
            continue
        last = o['ops'][0]
        if o.get('stuck'):
            impl = 'hangs'
        elif last.get('outcome') == 'raise':
            impl = 'raised'
        else:
            # complete: one exit result per worker instance that executed a task
            worked = {c[3] for c in o.get('calls', []) if c[0] == 0 and c[1] == 'task'}
            impl = 'complete' if len(last.get('exit_results') or []) >= len(worked) else 'incomplete'
        cases.append((sc, o, inj['exit_phase'], impl))
    lines = sorted({'gstop variant=final apply=0 kill=%s' % ph for _, _, ph, _ in cases})
    model = dict(zip(lines, drv.run(lines)))
    for sc, o, ph, impl in cases:
        res = model['gstop variant=final apply=0 kill=%s' % ph]
        chk.count(suite, key=key_of(sc) + str(sc['inject']), nontrivial=True, sample={'scenario': sc, 'killed_in': ph, 'impl': impl, 'model': res}, killed_in=ph, ended=impl)
        allowed = res.split('=', 1)[1].split(',') if res.startswith('ends=') else []
        if impl not in allowed:
            chk.mismatch(suite, {'scenario': sc, 'killed_in': ph}, impl, res)


def handover_tie(chk, sc, o, model):
    """apply pools: what happened to the task the victim was handed — and whether the pool could be joined afterwards —
    vs Mpire.Handover for the phase the victim was killed in"""
    inj = o.get('injected') or {}
    if sc['ops'][sc.get('judge_op', -1)]['op'] != 'apply_batch' or not inj or o.get('harness_error'):
        return
    if 'judge_op' in sc and inj.get('opi', sc['judge_op']) != sc['judge_op']:
        return
    phase = {'apply_pill_taken': 'pill', 'apply_task_taken': 'task', 'job_announced': 'announced', 'in_user': 'announced',
             'init_announced': 'init', 'init_ran': 'init', 'results_sent': 'resultsent'}.get(inj.get('victim_phase'))
    if phase is None or phase not in model:
        return
    m = model[phase]
    stuck = o.get('stuck')
    # joinable: a follow-up stop_and_join / map on the pool got through join_task_queues
    follow = [op['op'] for op in sc['ops'][sc.get('judge_op', 0) + 1:]] if 'judge_op' in sc else []
    impl_join = None
    if stuck and 'q.join tq' in str(stuck.get('info')):
        impl_join = 0
    elif not stuck and ('stop_and_join' in follow or 'map' in follow) and len(o.get('ops', [])) == len(sc['ops']) and \
            all(x.get('outcome') == 'ok' for x in o['ops'][sc.get('judge_op', 0) + 1:]):
        impl_join = 1
    if impl_join is not None and phase in ('announced', 'resultsent'):
        chk.count('apply hand-over under SIGKILL: can the pool be joined afterwards, vs Mpire.Handover.joinable', key=(phase, impl_join, str(sc['inject'])), nontrivial=True,
                  sample={'phase': phase, 'impl_joinable': impl_join, 'model': m}, phase=phase, joinable=impl_join)
        if ('joinable=%d' % impl_join) not in m:
            chk.mismatch('apply hand-over under SIGKILL vs Mpire.Handover.joinable', {'scenario': sc, 'victim_phase': inj.get('victim_phase')}, 'joinable=%d' % impl_join, m)
    if stuck:
        return
    last = o['ops'][sc.get('judge_op', -1)]
    bad = sorted(a for a in last.get('apply', []) if a[1] != 'ok')
    # the task the victim was handed: tasks are handed out in index order, so it is the lowest-index task that did not succeed
    mine = bad[:1]
    if not mine:
        impl = 'done'
    elif mine[0][2] == 'TimeoutError' and not mine[0][3]:
        impl = 'lost'
    elif mine[0][2] == 'RuntimeError':
        impl = 'failed-with-death-error'
    else:
        impl = 'ran-as-chunk'
    chk.count('apply hand-over under SIGKILL vs Mpire.Handover', key=(phase, impl, str(sc['inject'])), nontrivial=True,
              sample={'phase': phase, 'impl': impl, 'model': m}, phase=phase, impl=impl)
    # a task that had already finished when the announced worker died completes normally: 'done' is compatible with 'announced'
    if impl != m.split(' ')[0] and not (phase == 'announced' and impl == 'done'):
        chk.mismatch('apply hand-over under SIGKILL vs Mpire.Handover', {'scenario': sc, 'victim_phase': inj.get('victim_phase')}, impl, m)
    if phase == 'init' and ('poolfailed=1' in m) != (len(bad) > 1 or bool(last.get('control', {}).get('exception_thrown'))):
        chk.mismatch('apply hand-over under SIGKILL vs Mpire.Handover.poolFailed', {'scenario': sc}, {'failed': bad, 'flag': last.get('control', {}).get('exception_thrown')}, m)


def judge_idle(chk, sc, o):
    if o.get('harness_error'):
        return
    case = {'scenario': sc}
    if o.get('stuck'):
        chk.violation('no_hang_after_idle_death', case, o['stuck'], 'the next call raises (map) / continues (apply) within bounded time', input_class='idle_death_hang_' + sc['idle'])
        return
    ops = o['ops']
    if sc['idle'] == 'keep_alive':
        nxt = ops[4]
        if nxt.get('outcome') != 'raise' or (nxt.get('exc') or {}).get('type') != 'RuntimeError':
            chk.violation('idle_death_next_call_raises', case, {'next_call': nxt.get('outcome'), 'exc': nxt.get('exc')},
                          'the call after the death of an idle kept-alive worker raises RuntimeError', input_class='idle_death_keep_alive')
        after = ops[5]
        if after.get('outcome') != 'ok' or after.get('result') != [oracles.value_of(i) for i in range(5)]:
            chk.violation('pool_usable_after_idle_death', case, {'outcome': after.get('outcome'), 'exc': after.get('exc')}, 'later calls work', input_class='idle_death_then_ok')
    else:
        nxt = ops[4]
        bad = [a for a in nxt.get('apply', []) if a[1] != 'ok' or a[2] != oracles.value_of(a[0])]
        if nxt.get('outcome') != 'ok' or bad:
            chk.violation('idle_apply_death_replaced', case, {'outcome': nxt.get('outcome'), 'bad': bad, 'exc': nxt.get('exc')},
                          'a replacement worker takes over; every task completes correctly', input_class='idle_death_apply')
    if o.get('alive_at_exit') or o.get('procs_alive'):
        chk.violation('clean_shutdown_after_death', case, {'alive': o.get('alive_at_exit')}, 'clean shutdown', input_class='death_leak')


def run(chk):
    drv = Driver()
    rng = chk.rng
    # death-scan model vs itself is proved; tie: replay a few canonical interleavings through the driver as sanity (samples only)
    canon = ['S,A,r,r,D,X,r,r,r,r', 'S,A,K,r,r,r,r,r,r', 'S,A,r,r,D,X,R,A,r,r,r', 'S,A,D,X,R,r,r,A,r,r,r,S', 'S,A,r,D,r,X,r,r,r', 'A,r,r,r']
    for line, m in zip(canon, drv.run(['dscan ev=' + c for c in canon])):
        chk.count('death-scan model sanity (driver)', key=line, nontrivial=True, sample={'events': line, 'model': m})
        exp_kill = 'K' in line
        if ('verdict=1' in m) != exp_kill:
            chk.mismatch('death-scan model sanity', {'events': line}, 'expected verdict %d' % exp_kill, m)
    # corpus first: minimised past failures / known findings (always re-run, so a known finding is reported on every run)
    import glob
    import json as _json
    import os as _os
    from harness.common import ROOT
    corpus = []
    for f in sorted(glob.glob(_os.path.join(ROOT, 'corpus', 'C07', '*.json'))):
        try:
            corpus.append(_json.load(open(f))['case']['scenario'])
        except Exception:
            pass
    for sc, o in zip(corpus, par.run_all(corpus)):
        cls = judge(chk, sc, o)
        chk.count('corpus (minimised past failures, run first)', key=key_of(sc) + str(sc.get('inject')), nontrivial=True, sample={'scenario': sc, 'outcome': cls})
    bases = base_scenarios(rng, 7 if chk.tier == 'quick' else 84)
    # an apply pool whose caller is slow right after it started the workers: the first task is not registered yet when a worker that
    # has already announced itself dies
    for _ in range(1 if chk.tier == 'quick' else 4):
        k = rng.randint(2, 4)
        bases.append({'seed': rng.randint(0, 10 ** 6), 'pool': {'n_jobs': rng.choice([1, 2]), 'start_method': 'fork'}, 'judge_op': 0, 'same_func': True,
                      'ops': [{'op': 'apply_batch', 'tasks': [{'idx': i} for i in range(k)], 'dur': {'kind': 'map', 'map': {}, 'default': 0.02}, 'get_timeout': 30,
                               'init': rng.random() < .5, 'init_dur': 0.02}, {'op': 'stop_and_join'}],
                      'rules': [{'role': 'main', 'op': 'start', 'obj': None, 'sleep': rng.choice([0.05, 0.2]), 'p': 1.0}]})
    # a call with a progress bar and chunks of several tasks: a worker that dies between two tasks at the end of the call (its results are in,
    # part of its progress is not) while the others already wait for the bar
    for _ in range(1 if chk.tier == 'quick' else 5):
        nj = rng.choice([2, 3])
        c = rng.choice([2, 3, 5])
        bases.append({'seed': rng.randint(0, 10 ** 6), 'pool': {'n_jobs': nj, 'start_method': 'fork'},
                      'ops': [{'op': rng.choice(['map', 'map_unordered']), 'n': c * nj, 'chunk_size': c, 'progress_bar': True,
                               'dur': {'kind': 'map', 'map': {str(c * (nj - 1)): 0.3}, 'default': 0.01}}]})
    # a worker_exit that takes a while on one worker: the crash points inside it and between its return and the delivery of its
    # result (the exit results of a call that then completes must be complete)
    for _ in range(1 if chk.tier == 'quick' else 6):
        nj = rng.choice([2, 3])
        bases.append({'seed': rng.randint(0, 10 ** 6), 'pool': {'n_jobs': nj, 'start_method': 'fork'},
                      'ops': [{'op': rng.choice(['map', 'map_unordered', 'imap']), 'n': rng.randint(4, 8), 'chunk_size': 1, 'exit': True,
                               'init': rng.random() < .5, 'exit_dur': {'kind': 'map', 'map': {str(rng.randrange(nj)): rng.choice([0.3, 1.0])}, 'default': 0.0},
                               'dur': {'kind': 'hash', 'salt': rng.randint(0, 99), 'unit': 0.01}}]})
        if chk.tier != 'quick' and rng.random() < .5:
            continue
        # … and the same with a death handler that is slow between clearing the victim's flag and reporting the death
        bases.append(copy.deepcopy(bases[-1]))
        bases[-1]['rules'] = [{'role': 'unexpected_death_handler', 'op': 'array.set+', 'obj': 'workers_dead', 'sleep': rng.choice([0.2, 0.5]), 'p': 1.0}]
    phases = ['queued', 'pill', 'task', 'init', 'announced', 'resultsent']
    handover_model = dict(zip(phases, drv.run(['handover phase=%s' % p for p in phases])))
    chk.notes['handover_model'] = handover_model
    bobs = inject.baseline(bases)
    swept = []
    for sc, bo in zip(bases, bobs):
        if bo.get('stuck') or bo.get('harness_error'):
            continue
        swept += inject.sigkill_sweep(sc, bo, stride=1)
    for sc in swept:
        if sc['ops'][0]['op'] == 'apply_batch':
            sc['want_aproto'] = True
        else:
            sc['want_ffail'] = True
    obs = par.run_all(swept)
    # apply pools: the queue / result / settle events of the crash runs are steps of Mpire.ApplyProto (with `die` for the victim) —
    # outside the dequeue / worker_init windows, which are the known findings
    from harness.checks.C09 import aproto_tie
    tie = [(sc, o) for sc, o in zip(swept, obs) if 'aproto' in o and not o.get('stuck') and
           (o.get('injected') or {}).get('victim_phase') in ('job_announced', 'in_user', 'after_user', 'results_sent', 'acked', 'idle') and
           (o.get('injected') or {}).get('opi', 0) == 0 and len(sc['ops']) == 1]
    aproto_tie(chk, drv, [a for a, _ in tie], [b for _, b in tie], suite='apply pools under SIGKILL: protocol events vs Mpire.ApplyProto.step (die)')
    classes = {}
    for sc, o in zip(swept, obs):
        cls = judge(chk, sc, o)
        classes[cls] = classes.get(cls, 0) + 1
        handover_tie(chk, sc, o, handover_model)
        if cls and not str(cls).startswith('skipped') and cls != 'harness':
            chk.count('SIGKILL at every scheduling point of every worker instance (DetSim)', key=key_of(sc) + str(sc['inject']), nontrivial=True,
                      sample={'scenario': sc, 'outcome': cls, 'injected': o.get('injected')}, outcome=cls, op=sc['ops'][0]['op'],
                      in_user_function=(o.get('injected') or {}).get('in_user_function'))
    chk.notes['crash_sweep'] = {'bases': len(bases), 'crash_points_tried': len(swept), 'outcome_classes': classes, 'exhaustive_per_base': True}
    graceful_tie(chk, drv, swept, obs)
    # the death handler as one of the parties that report a failing call (slot, flag, stores, what the caller fetches)
    from harness.checks.C04 import ffail_tie
    ffail_tie(chk, swept, obs)
    idle = idle_scenarios(rng, 60 if chk.tier == 'quick' else 800)
    iobs = par.run_all(idle)
    for sc, o in zip(idle, iobs):
        chk.count('death of an idle worker (keep-alive gap / apply pool)', key=key_of(sc), nontrivial=True, sample={'scenario': sc, 'outcomes': [x.get('outcome') for x in o.get('ops', [])]},
                  kind=sc['idle'])
        judge_idle(chk, sc, o)
    chk.assumptions += ['crash points at which the victim holds a (simulated) lock, and points before it announced itself, are skipped and counted (out of scope by the property)',
                        'with real processes an idle worker holds its queue\'s reader lock almost all the time: idle crash points are exercised under DetSim only',
                        'half-written pipe messages do not exist under DetSim']

    def search():
        pass
    return search
