"""C11 — worker_init / worker_exit run exactly once per working worker instance.
Theorems: Props/C11.lean on the worker transducer (every script of queue entries and user-function outcomes).
Correspondence: the REAL AbstractWorker.run() against a scripted comms object vs Mpire.Worker.run on the same scripts;
whole calls under DetSim (per-instance init/task/exit sequences, exit results)."""
import random

from harness import gen
from harness.common import Driver
from harness.detcheck import run_scenarios
from harness.pure import worker_script as ws


def transducer_suite(chk, n, suite='AbstractWorker.run vs Mpire.Worker.run (scripted comms)'):
    drv = Driver()
    rng = chk.rng
    lines, impl, cases = [], [], []
    for i in range(n):
        p, e, items = ws.gen_script(rng, clean=(i % 2 == 0))
        acts, flag, err = ws.run_real(p, e, items)
        lines.append(ws.line_of(p, e, items, flag))
        impl.append(' '.join(acts))
        cases.append((p, e, items))
    out = drv.run(lines)
    for line, i, m, (p, e, items) in zip(lines, impl, out, cases):
        kinds = ''.join(sorted({it[0] for it in items}))
        outs = {o for it in items if it[0] == 'c' for _, o in it[2]} | {it[2][1] for it in items if it[0] == 'A' and it[1] is not None}
        chk.count(suite, key=line, nontrivial=len(items) >= 2, sample={'script': line[:200], 'impl': i[:200]},
                  items=kinds or '-', lifespan='none' if p['lifespan'] is None else 'set', outcomes='all-ok' if outs <= {'ok'} else 'with-failures',
                  hooks='%d%d' % (p['hasInit'], p['hasExit']))
        if i != m:
            chk.mismatch(suite, {'script': line}, i[:1500], m[:1500])
    return lines, impl


def ka_histories(rng, n):
    """keep-alive histories: several calls (other function / lifespan / sizes each time) on one pool, then stop_and_join"""
    scs = []
    for _ in range(n):
        nj = rng.choice([1, 2, 3, 4])
        pool = {'n_jobs': nj, 'start_method': rng.choice(['fork', 'fork', 'threading']), 'keep_alive': True}
        if rng.random() < .4:
            pool['order_tasks'] = True
        ops = []
        lifespan = rng.choice([None, None, 1, 2, 3])
        for k in range(rng.randint(2, 4)):
            nn = rng.choice([1, 1, 2, 3, 5, 8, 12])
            op = {'op': rng.choice(['map', 'map_unordered', 'imap', 'imap_unordered']), 'n': nn, 'chunk_size': rng.choice([1, 1, 2]),
                  'elem': rng.choice(['scalar', 'tuple']), 'init': True, 'exit': True, 'dur': {'kind': 'hash', 'salt': rng.randint(0, 99), 'unit': 0.005}}
            if rng.random() < .3:
                lifespan = rng.choice([None, 1, 2, 3])
            if lifespan:
                op['worker_lifespan'] = lifespan
            if pool['start_method'] == 'fork' and rng.random() < .3:
                op['worker_exit_timeout'] = 60.0        # a timeout that never fires must not change what the exit function returns
            if pool['start_method'] == 'fork' and rng.random() < .3:
                op['worker_init_timeout'] = 60.0        # … nor how often worker_init runs
            ops.append(op)
            if k < 3 and rng.random() < .25:
                # a setter that really changes a pool parameter: the kept workers are retired (with their worker_exit) at the next call
                what = rng.choice(['pass_worker_id', 'shared_objects', 'use_worker_state'])
                cur_val = [o2['value'] for o2 in ops if o2.get('what') == what][-1:] or [bool(pool.get(what))]
                ops.append({'op': 'set', 'what': what, 'value': not cur_val[0]})
        if ops[-1]['op'] == 'set':
            ops.pop()
        same = rng.random() < .3
        if not same and rng.random() < .3:
            # a call with an empty input brings new functions; the next call has the same ones and something to do
            maps = [o2 for o2 in ops if o2['op'] != 'set']
            if len(maps) >= 2:
                j = rng.randrange(1, len(maps))
                import copy as _copy
                empty = _copy.deepcopy(maps[j])
                empty['n'] = 0
                empty['func_group'] = 1
                maps[j]['func_group'] = 1
                for o2 in maps[:j]:
                    o2['func_group'] = 0
                for o2 in maps[j + 1:]:
                    o2['func_group'] = 2
                ops.insert(ops.index(maps[j]), empty)
        ops.append({'op': 'stop_and_join', 'want_exit_results': True})
        scs.append({'seed': rng.randint(0, 10 ** 6), 'pool': pool, 'ops': ops, 'same_func': same, 'relax_shape': True})
    return scs


def ka_judge(chk, sc, o):
    if o.get('harness_error') or o.get('stuck') or any(x.get('outcome') != 'ok' for x in o.get('ops', [])) or len(o.get('ops', [])) != len(sc['ops']):
        if not o.get('harness_error'):
            chk.violation('keep_alive_history_completes', {'scenario': sc}, {'stuck': o.get('stuck'), 'outcomes': [(x.get('outcome'), (x.get('exc') or {}).get('type')) for x in o.get('ops', [])]},
                          'every call of a successful keep-alive history succeeds', input_class='ka_history_fails')
        return
    import collections
    import re
    by = collections.defaultdict(list)
    for c in o.get('calls', []):
        by[c[3]].append(c)
    case = {'scenario': sc}
    for tok, cs in by.items():
        kinds = ''.join({'init': 'I', 'task': 'T', 'exit': 'E'}[c[1]] for c in cs)
        if not re.fullmatch('IT+E', kinds):
            chk.violation('instance_shape_over_history', case, {'instance': cs[0][2], 'token': tok, 'sequence': kinds[:80]},
                          'per worker instance: init, then one or more tasks, then exit (an instance without tasks runs neither)', input_class='ka_shape')
            return
    if any(op['op'] == 'set' for op in sc['ops']):
        return      # the exit results are kept per generation of workers: only the per-instance shape is asserted across a restart
    ex = o['ops'][-1].get('exit_results') or []
    got = collections.Counter(tuple(x) if isinstance(x, list) else x for x in ex)
    want = collections.Counter(('exit', tok, sum(1 for c in cs if c[1] == 'task' and c[7] is not None)) for tok, cs in by.items())
    if got != want:
        chk.violation('exit_results_conserved_over_history', case, {'got': sorted(got.elements(), key=str)[:8], 'expected': sorted(want.elements(), key=str)[:8]},
                      'get_exit_results() == the values returned by the exit invocations', input_class='ka_exit_results')
    elif sum(x[2] for x in got.elements()) != sum(op['n'] for op in sc['ops'] if 'n' in op and op['op'] != 'set'):
        chk.violation('exit_results_account_for_every_task', case, {'sum': sum(x[2] for x in got.elements())}, 'every task is accounted once', input_class='ka_exit_sum')


def run(chk):
    rng = chk.rng
    transducer_suite(chk, 2500 if chk.tier == 'quick' else 40000)
    N = 250 if chk.tier == 'quick' else 4000
    scs = []
    for _ in range(N):
        sc = gen.gen_success_scenario(rng)
        for op in sc['ops']:
            if rng.random() < .7:
                op['init'] = True
            if rng.random() < .7:
                op['exit'] = True
                if sc['pool']['start_method'] == 'fork' and rng.random() < .3:
                    op['worker_exit_timeout'] = 60.0
            if op.get('init') and sc['pool']['start_method'] == 'fork' and rng.random() < .3:
                op['worker_init_timeout'] = 60.0
            if op.get('exit') and rng.random() < .3:
                op['exit_none'] = rng.choice(['all', 'even'])      # a worker_exit that returns None: that is the value it returned
            if not op.get('exit'):
                op['want_exit_results'] = True      # … and a call without worker_exit shows no exit results (none of an earlier call's either)
        sc['all_valid'] = False
        sc['pool'].pop('keep_alive', None)
        scs.append(sc)
    run_scenarios(chk, 'whole calls under DetSim (per-instance init/task/exit shape, exit results)', scs, {'C11'},
                  nontrivial=lambda sc, o: any(c[1] != 'task' for c in o.get('calls', [])),
                  dist=lambda sc, o: {'lifespan': sc['ops'][0].get('worker_lifespan'), 'n_jobs': sc['pool']['n_jobs'],
                                      'instances': min(len({c[3] for c in o.get('calls', [])}), 9)})
    ka = ka_histories(rng, 200 if chk.tier == 'quick' else 3000)
    for _sc in ka:
        if rng.random() < .25 and 'rules' not in _sc:
            _sc['rules'] = gen.schedule_rules(rng, _sc['pool']['n_jobs'])      # adversarial schedules
    kobs = run_scenarios(chk, 'keep-alive histories under DetSim (per-instance shape over the whole history, exit results at the end)', ka, {'C11', 'C01', 'C02'},
                         nontrivial=lambda sc, o: len(sc['ops']) >= 3,
                         dist=lambda sc, o: {'calls': len(sc['ops']) - 1, 'lifespans': str(sorted({str(op.get('worker_lifespan')) for op in sc['ops'][:-1]})),
                                             'same_func': sc['same_func'], 'idle_workers_possible': any(op.get('n', 99) < sc['pool']['n_jobs'] for op in sc['ops'][1:-1])})
    for sc, o in zip(ka, kobs):
        ka_judge(chk, sc, o)
    # apply submissions with hooks and a task limit: a worker whose task is interrupted by the limit lives on and runs more tasks —
    # still one worker_init per instance (before its first task) and one worker_exit (after its last)
    import collections
    ah = []
    for _ in range(40 if chk.tier == 'quick' else 600):
        nj = rng.choice([1, 2])
        k = rng.randint(3, 7)
        slow = sorted(rng.sample(range(k), rng.randint(1, 2)))
        if rng.random() < .6 and 0 not in slow:
            slow = [0] + slow[:1]          # often the very first task of an instance is the one that is interrupted
        ah.append({'seed': rng.randint(0, 10 ** 6), 'pool': {'n_jobs': nj, 'start_method': 'fork', 'use_worker_state': True}, 'relax_shape': True,
                   'ops': [{'op': 'apply_batch', 'tasks': [{'idx': i, 'gap': 0.02} for i in range(k)], 'init': True, 'exit': True, 'task_timeout': 0.2, 'get_timeout': 30,
                            'dur': {'kind': 'map', 'map': {str(i): 30.0 for i in slow}, 'default': 0.01}, 'wait_order': list(range(k))},
                           {'op': 'stop_and_join'}]})
    aobs = run_scenarios(chk, 'apply submissions with hooks and interrupted tasks: hooks once per instance (DetSim)', ah, {'C03'}, nontrivial=lambda sc, o: True,
                         dist=lambda sc, o: {'n_jobs': sc['pool']['n_jobs'], 'first_task_interrupted': '0' in sc['ops'][0]['dur']['map']})
    for sc, o in zip(ah, aobs):
        if o.get('harness_error') or o.get('stuck') or [x.get('outcome') for x in o.get('ops', [])] != ['ok', 'ok']:
            continue
        per = collections.defaultdict(lambda: collections.Counter())
        for c in o.get('calls', []):
            per[c[3]][c[1]] += 1
            if c[1] == 'task' and c[7] is not None:
                per[c[3]]['task_completed'] += 1
        # (an instance whose every task was interrupted has completed none: whether it owes a worker_exit is left open)
        bad = {str(tok): dict(cnt) for tok, cnt in per.items()
               if cnt.get('task') and (cnt.get('init', 0) != 1 or cnt.get('exit', 0) > 1 or (cnt.get('task_completed') and cnt.get('exit', 0) != 1))}
        if bad:
            chk.violation('instance_shape', {'scenario': sc}, {'calls_per_instance': bad}, 'worker_init once before the first task and worker_exit once after the last, per instance',
                          input_class='hooks_repeated_after_interrupted_task')
    chk.assumptions += ['exit payloads above the pipe capacity are exercised only by the real-process tier']

    def search():
        extra = []
        r = random.Random(chk.seed * 13 + 5)
        for _ in range(500):
            sc = gen.gen_success_scenario(r)
            for op in sc['ops']:
                op['init'] = op['exit'] = True
            sc['pool'].pop('keep_alive', None)
            extra.append(sc)
        run_scenarios(chk, 'search', extra, {'C11'})
        ka2 = ka_histories(r, 600)
        for sc, o in zip(ka2, run_scenarios(chk, 'search', ka2, {'C11'})):
            ka_judge(chk, sc, o)
    return search
