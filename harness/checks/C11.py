"""C11 — worker_init / worker_exit run exactly once per working worker instance.
Theorems: Props/C11.lean on the worker transducer (every script of queue entries and user-function outcomes).
Correspondence: the REAL AbstractWorker.run() against a scripted comms object vs Mpire.Worker.run on the same scripts;
whole calls under DetSim (per-instance init/task/exit sequences, exit results)."""
import random

from harness import gen
from harness.common import Driver
from harness.detcheck import run_scenarios
from harness.pure import worker_script as ws


def transducer_suite(chk, n, suite='AbstractWorker.run vs Mpire.Worker.run (scripted comms)'):
    drv = Driver()
    rng = chk.rng
    lines, impl, cases = [], [], []
    for i in range(n):
        p, e, items = ws.gen_script(rng, clean=(i % 2 == 0))
        acts, flag, err = ws.run_real(p, e, items)
        lines.append(ws.line_of(p, e, items, flag))
        impl.append(' '.join(acts))
        cases.append((p, e, items))
    out = drv.run(lines)
    for line, i, m, (p, e, items) in zip(lines, impl, out, cases):
        kinds = ''.join(sorted({it[0] for it in items}))
        outs = {o for it in items if it[0] == 'c' for _, o in it[2]} | {it[2][1] for it in items if it[0] == 'A' and it[1] is not None}
        chk.count(suite, key=line, nontrivial=len(items) >= 2, sample={'script': line[:200], 'impl': i[:200]},
                  items=kinds or '-', lifespan='none' if p['lifespan'] is None else 'set', outcomes='all-ok' if outs <= {'ok'} else 'with-failures',
                  hooks='%d%d' % (p['hasInit'], p['hasExit']))
        if i != m:
            chk.mismatch(suite, {'script': line}, i[:1500], m[:1500])
    return lines, impl


def run(chk):
    rng = chk.rng
    transducer_suite(chk, 2500 if chk.tier == 'quick' else 40000)
    N = 250 if chk.tier == 'quick' else 4000
    scs = []
    for _ in range(N):
        sc = gen.gen_success_scenario(rng)
        for op in sc['ops']:
            if rng.random() < .7:
                op['init'] = True
            if rng.random() < .7:
                op['exit'] = True
        sc['pool'].pop('keep_alive', None)
        scs.append(sc)
    run_scenarios(chk, 'whole calls under DetSim (per-instance init/task/exit shape, exit results)', scs, {'C11'},
                  nontrivial=lambda sc, o: any(c[1] != 'task' for c in o.get('calls', [])),
                  dist=lambda sc, o: {'lifespan': sc['ops'][0].get('worker_lifespan'), 'n_jobs': sc['pool']['n_jobs'],
                                      'instances': min(len({c[3] for c in o.get('calls', [])}), 9)})
    chk.assumptions += ['exit payloads above the pipe capacity are exercised only by the real-process tier']

    def search():
        extra = []
        r = random.Random(chk.seed * 13 + 5)
        for _ in range(500):
            sc = gen.gen_success_scenario(r)
            for op in sc['ops']:
                op['init'] = op['exit'] = True
            sc['pool'].pop('keep_alive', None)
            extra.append(sc)
        run_scenarios(chk, 'search', extra, {'C11'})
    return search
