"""C18 — worker insights account for every task.
Theorems: Props/C18.lean (ratios, top-5, every successful task counted once).
Correspondence: real WorkerInsights.get_insights() on synthetic arrays vs Mpire.Progress.top5/ratios; the real bookkeeping
objects as an operation-sequence machine vs Mpire.Insights.run; whole calls under DetSim
with insights enabled (counts vs user-function log, restarts, keep-alive accumulation)."""
import random
from fractions import Fraction

from harness import gen
from harness.common import Driver
from harness.detcheck import run_scenarios
from harness.pure import insacc, small


def ins_scenarios(rng, n):
    scs = []
    for _ in range(n):
        sc = gen.gen_success_scenario(rng, n_ops=rng.choice([1, 2, 3]))
        sc['pool']['enable_insights'] = True
        for op in sc['ops']:
            op.setdefault('dur', {'kind': 'hash', 'salt': rng.randint(0, 99), 'unit': 0.01})
            if op.get('input') != 'nd' and rng.random() < .3:
                op['ret'] = 'falsy'        # tasks that return None, 0, '', [], 0.0, False are tasks like any other
        if rng.random() < .25:
            # the workers are started by apply submissions (insights have to be reset / present then too)
            k = rng.randint(1, 6)
            sc['ops'].insert(0, {'op': 'apply_batch', 'tasks': [{'idx': i} for i in range(k)], 'dur': {'kind': 'map', 'map': {}, 'default': 0.01}, 'get_timeout': 30,
                                 'want_insights': True})
            sc['pool'].pop('keep_alive', None)
        elif rng.random() < .2 and len(sc['ops']) >= 2:
            # a kept-alive pool whose workers are replaced between two calls (a pool setting changes, or a call fails): the counts
            # are those of the workers that are there now
            sc['pool']['keep_alive'] = True
            if rng.random() < .5:
                what = rng.choice(['pass_worker_id', 'shared_objects', 'use_worker_state'])
                sc['ops'].insert(1, {'op': 'set', 'what': what, 'value': not bool(sc['pool'].get(what))})
            else:
                sc['ops'].insert(1, {'op': 'map', 'n': 4, 'chunk_size': 1, 'elem': 'scalar', 'fail': {'at': [1], 'exc': 'ValueError'}})
                sc['all_valid'] = False
        scs.append(sc)
    return scs


def top5_scenarios(rng, n):
    """task durations strictly increasing with the task index, so that the five longest tasks are known: with and without restarts"""
    scs = []
    for _ in range(n):
        nj = rng.choice([1, 2, 3])
        nn = rng.randint(6, 14)
        op = {'op': rng.choice(['map', 'map_unordered', 'imap', 'imap_unordered']), 'n': nn, 'chunk_size': 1, 'elem': 'scalar',
              'dur': {'kind': 'map', 'map': {str(i): round(0.01 * (i + 1), 4) for i in range(nn)}, 'default': 0.01}}
        pool = {'n_jobs': nj, 'start_method': rng.choice(['fork', 'threading']), 'enable_insights': True}
        r = rng.random()
        if r < .45:
            op['worker_lifespan'] = rng.choice([1, 2, 3])
        elif r < .8:
            pool['keep_alive'] = True       # the workers only pause: what they publish has to be there when the call returns
        sc = {'seed': rng.randint(0, 10 ** 6), 'pool': pool, 'ops': [op], 'top5': True}
        if pool.get('keep_alive') and rng.random() < .6:
            # … also when a worker is slow right after it acknowledged the end of the call
            sc['rules'] = [{'role': 'Worker-%d' % rng.randrange(nj), 'op': 'q.task_done+', 'obj': None, 'sleep': rng.choice([0.05, 0.3]), 'p': 1.0}]
        scs.append(sc)
    return scs


def top5_history_scenarios(rng, n):
    """keep-alive histories of two or three calls with other functions / parameters, the longest tasks in an EARLIER call: the five
    longest tasks since the workers started are still reported after the later calls (counts accumulate, and so does this list)"""
    scs = []
    for _ in range(n):
        nj = rng.choice([1, 2, 3])
        ops, durs = [], []
        for k in range(rng.randint(2, 3)):
            nn = rng.randint(3, 8)
            unit = [0.1, 0.01, 0.001][k]
            d = {str(i): round(unit * (i + 1), 4) for i in range(nn)}
            durs.append(sorted(d.values()))
            op = {'op': rng.choice(['map', 'map_unordered', 'imap', 'imap_unordered']), 'n': nn, 'chunk_size': 1, 'elem': 'scalar',
                  'dur': {'kind': 'map', 'map': d, 'default': unit}}
            if k and rng.random() < .4:
                op['task_timeout'] = 50.0         # other parameters than the call before, also with the same function
            ops.append(op)
        scs.append({'seed': rng.randint(0, 10 ** 6), 'pool': {'n_jobs': nj, 'start_method': rng.choice(['fork', 'threading']), 'enable_insights': True, 'keep_alive': True},
                    'ops': ops, 'same_func': rng.random() < .4, 'relax_shape': True, 'durs': durs})
    return scs


def _secs(x):
    try:
        h, m, s_ = str(x).split(':')
        return round(int(h) * 3600 + int(m) * 60 + float(s_), 4)
    except Exception:
        return x


def top5_history_judge(chk, sc, o):
    if o.get('harness_error') or o.get('stuck') or len(o.get('ops', [])) != len(sc['ops']) or any(x.get('outcome') != 'ok' for x in o['ops']):
        return
    seen = []
    for k, oo in enumerate(o['ops']):
        seen += sc['durs'][k]
        want = sorted(seen, reverse=True)[:5]
        ins = oo.get('insights') or {}
        got = [_secs(x) for x in ins.get('top_5_max_task_durations') or []]
        if len(got) != len(want) or any(abs(a - b) > 0.002 for a, b in zip(got, want) if isinstance(a, float)):
            chk.violation('top5_are_the_five_longest', {'scenario': sc}, {'after_call': k, 'reported': got, 'expected_seconds': want, 'args': ins.get('top_5_max_task_args')},
                          'the five longest tasks since the workers started, longest first - also after later calls with other parameters', input_class='top5_history')
            return


def top5_judge(chk, sc, o):
    if o.get('harness_error') or o.get('stuck') or not o.get('ops') or o['ops'][0].get('outcome') != 'ok':
        return
    ins = o['ops'][0].get('insights') or {}
    nn = sc['ops'][0]['n']
    want = [round(0.01 * (i + 1), 4) for i in range(nn)][-5:][::-1]
    got = ins.get('top_5_max_task_durations') or []
    def secs(x):
        try:
            h, m, s_ = str(x).split(':')
            return round(int(h) * 3600 + int(m) * 60 + float(s_), 4)
        except Exception:
            return x
    got_s = [secs(x) for x in got]
    if len(got_s) != len(want) or any(abs(a - b) > 0.002 for a, b in zip(got_s, want) if isinstance(a, float)):
        chk.violation('top5_are_the_five_longest', {'scenario': sc}, {'reported': got, 'expected_seconds': want, 'args': ins.get('top_5_max_task_args')},
                      'the five longest tasks since the workers started, longest first', input_class='top5_content')


def run(chk):
    drv = Driver()
    rng = chk.rng
    lines, impl, raw = [], [], []
    for _ in range(300 if chk.tier == 'quick' else 3000):
        nj = rng.randint(1, 4)
        durs = [rng.choice([0, 0, rng.randint(1, 30)]) for _ in range(nj * 5)]
        # distinct positive durations so that the order is defined
        seen = set()
        for k, d in enumerate(durs):
            while d and d in seen:
                d += 1
            durs[k] = d
            seen.add(d)
        args = ['' if (d == 0 or rng.random() < .15) else 'arg%d' % k for k, d in enumerate(durs)]
        times = {k: [rng.randint(0, 20) for _ in range(nj)] for k in ('start_up', 'init', 'waiting', 'working', 'exit')}
        ins = small.insights_run(nj, durs, args, times)
        lines.append('top5 e=' + ','.join('%d:%s' % (d, a or '_') for d, a in zip(durs, args)))
        impl.append('ok ' + ','.join(ins['top_5_max_task_args']))
        raw.append(('top5', ins, durs, args))
        parts = [sum(times[k]) for k in ('start_up', 'init', 'waiting', 'working', 'exit')]
        lines.append('ratios parts=%s epsden=100000000' % ','.join(map(str, parts)))
        impl.append([ins[k + '_ratio'] for k in ('start_up', 'init', 'waiting', 'working', 'exit')])
        raw.append(('ratios', ins, parts, None))
    out = drv.run(lines)
    for line, i, m, r in zip(lines, impl, out, raw):
        if r[0] == 'top5':
            margs = 'ok ' + ','.join(x.split(':')[1] for x in m[3:].split(',') if x)
            chk.count('get_insights top-5 vs Mpire.Progress.top5', key=line, nontrivial=line.count(':') >= 5, sample={'line': line[:150], 'impl': i})
            if i != margs:
                chk.mismatch('top-5 longest tasks', {'line': line}, i, margs)
            ins = r[1]
            if len(ins['top_5_max_task_args']) > 5 or len(ins['top_5_max_task_args']) != len(ins['top_5_max_task_durations']):
                chk.violation('top5_shape', {'durations': r[2], 'args': r[3]}, ins['top_5_max_task_args'], '<= 5 entries, one argument string each', input_class='top5')
        else:
            fr = [Fraction(*map(int, x.split('/'))) for x in m[3:].split(',')]
            chk.count('get_insights ratios vs Mpire.Progress.ratios (exact rationals)', key=line, nontrivial=sum(r[2]) > 0, sample={'line': line, 'impl': i})
            if any(abs(float(a) - b) > 1e-9 for a, b in zip(fr, i)):
                chk.mismatch('ratios', {'line': line}, i, [float(x) for x in fr])
            if any(x < 0 or x > 1 for x in i) or sum(i) > 1 + 1e-9:
                chk.violation('ratios_in_unit_interval', {'parts': r[2]}, i, 'each ratio in [0,1], sum <= 1', input_class='ratios')
    # the bookkeeping over a pool's life: the real WorkerInsights/TimeIt objects as an operation-sequence machine vs Mpire.Insights.run
    alines, aimpl, ains = [], [], []
    n_acc = 500 if chk.tier == 'quick' else 6000
    for k_acc in range(n_acc):
        ops = insacc.gen_ops(rng, big=k_acc % 25 == 0)       # (every 25th history has bursts that take a counter past 2^15 / 2^16)
        alines.append('insacc ops=' + ','.join(ops))
        line, ins = insacc.run_ops(ops)
        aimpl.append(line)
        ains.append((ops, ins))
    for line, i, m, (ops, ins) in zip(alines, aimpl, drv.run(alines), ains):
        chk.count('insights bookkeeping machine vs Mpire.Insights.run', key=line, nontrivial=line.count('T:') >= 3,
                  sample={'line': line[:160], 'impl': i[:160]}, restarts='R:' in line, replaced='K:' in line, second_start=line.count('S:') > 1)
        if i != m:
            chk.mismatch('insights bookkeeping', {'line': line}, i, m)
        if ins is not None:
            last = max(k for k, o in enumerate(ops) if o.startswith('S:'))
            n = int(ops[last].split(':')[1])
            done = sum((1 if o[0] == 'T' else int(o.split(':')[2])) for o in ops[last:] if o[:2] in ('T:', 'B:') and int(o.split(':')[1]) < n)
            if len(ins['n_completed_tasks']) != n or sum(ins['n_completed_tasks']) != done:
                chk.violation('counts_sum_to_tasks_since_start', {'ops': ops}, ins['n_completed_tasks'], '%d entries summing to %d' % (n, done), input_class='bookkeeping')
            if len(ins['top_5_max_task_args']) > 5 or len(ins['top_5_max_task_args']) != len(ins['top_5_max_task_durations']):
                chk.violation('top5_shape', {'ops': ops}, ins['top_5_max_task_args'], '<= 5 entries, one argument string each', input_class='bookkeeping')
    scs = ins_scenarios(rng, 250 if chk.tier == 'quick' else 4000)
    run_scenarios(chk, 'whole calls with insights under DetSim', scs, {'C18'},
                  nontrivial=lambda sc, o: len(o.get('calls', [])) >= 2,
                  dist=lambda sc, o: {'keep_alive': bool(sc['pool'].get('keep_alive')), 'ops': len(sc['ops']), 'lifespan': sc['ops'][0].get('worker_lifespan') is not None,
                                      'start': sc['pool']['start_method']})
    th = top5_history_scenarios(rng, 60 if chk.tier == 'quick' else 900)
    for sc, o in zip(th, run_scenarios(chk, 'keep-alive histories: the longest tasks ran in an earlier call (DetSim)', th, {'C18', 'C01'}, nontrivial=lambda sc, o: True,
                                       dist=lambda sc, o: {'calls': len(sc['ops']), 'same_func': sc['same_func'], 'n_jobs': sc['pool']['n_jobs']})):
        top5_history_judge(chk, sc, o)
    ts = top5_scenarios(rng, 80 if chk.tier == 'quick' else 1200)
    tobs = run_scenarios(chk, 'top-5 content: known durations, with and without lifespan restarts (DetSim)', ts, {'C18'}, nontrivial=lambda sc, o: True,
                         dist=lambda sc, o: {'lifespan': sc['ops'][0].get('worker_lifespan'), 'start': sc['pool']['start_method']})
    for sc, o in zip(ts, tobs):
        top5_judge(chk, sc, o)
    chk.assumptions += ['float rounding of the ratios is compared numerically (1e-9) against exact rationals',
                        'the SyncManager holding the argument strings is replaced by an in-process list']

    def search():
        run_scenarios(chk, 'search', ins_scenarios(random.Random(chk.seed * 41 + 1), 800), {'C18'})
    return search
