"""C13 — worker identity, private state and argument order.
Theorems: Props/C13.lean (extras order for every subset; call shapes).
Correspondence: the real AbstractWorker argument helpers vs Mpire.Args on generated values; whole calls under DetSim over all
8 subsets x map/apply families x lifespans (ids, instance tokens, state tokens, overlap of instances per id)."""
import itertools
import random

from harness import gen
from harness.common import Driver
from harness.detcheck import run_scenarios
from harness.pure import small


def id_scenarios(rng, n):
    scs = []
    subsets = list(itertools.product([False, True], repeat=3))
    for k in range(n):
        sc = gen.gen_success_scenario(rng, n_ops=rng.choice([1, 2]))
        a, b, c = subsets[k % 8]
        for key, v in (('pass_worker_id', a), ('shared_objects', b), ('use_worker_state', c)):
            sc['pool'].pop(key, None)
            if v:
                sc['pool'][key] = True
        if b and rng.random() < .35:
            sc['pool']['shared_objects'] = 'falsy'      # enabled means "not None": an empty list is passed on like any other object
        for op in sc['ops']:
            op['init'] = op['exit'] = True
            if rng.random() < .5:
                op['worker_lifespan'] = rng.choice([1, 2, 3])
        if rng.random() < .3:
            sc['ops'].append(gen.gen_apply_op(rng, sc['pool']['n_jobs'], with_failures=False))
            sc['pool'].pop('keep_alive', None)
        elif rng.random() < .4:
            # the setter path: a kept-alive pool whose settings change between two calls (with the same or another function)
            sc['pool']['keep_alive'] = True
            sc['same_func'] = rng.random() < .5
            sc['relax_shape'] = True
            extra = gen.gen_success_scenario(rng, n_ops=1)['ops'][0]
            extra['init'] = extra['exit'] = True
            cur = {k: bool(sc['pool'].get(k)) for k in ('pass_worker_id', 'shared_objects', 'use_worker_state')}
            what = rng.choice(sorted(cur))
            sc['ops'] += [{'op': 'set', 'what': what, 'value': not cur[what]}, extra]
            for op in sc['ops']:
                op.pop('worker_lifespan', None)
        if rng.random() < .15:
            # workers that are alive although keep_alive is off (started by apply submissions, or kept alive and then keep_alive
            # switched off), then a setter, then a map-family call: the call is run by workers started after the change
            cur = {k: bool(sc['pool'].get(k)) for k in ('pass_worker_id', 'shared_objects', 'use_worker_state')}
            what = rng.choice(sorted(cur))
            call = gen.gen_success_scenario(rng, n_ops=1)['ops'][0]
            call['init'] = call['exit'] = True
            call.pop('worker_lifespan', None)
            if rng.random() < .5:
                sc['pool'].pop('keep_alive', None)
                sc['pool'].pop('order_tasks', None)
                first = gen.gen_apply_op(rng, sc['pool']['n_jobs'], with_failures=False)
                first.pop('init', None)
                sc['ops'] = [first, {'op': 'set', 'what': what, 'value': not cur[what]}, call]
            else:
                sc['pool']['keep_alive'] = True
                first = gen.gen_success_scenario(rng, n_ops=1)['ops'][0]
                first['init'] = first['exit'] = True
                first.pop('worker_lifespan', None)
                sc['ops'] = [first, {'op': 'set', 'what': 'keep_alive', 'value': False}, {'op': 'set', 'what': what, 'value': not cur[what]}, call]
            sc['same_func'] = rng.random() < .5
            sc['relax_shape'] = True
            sc['all_valid'] = True
        elif rng.random() < .12:
            # threads cannot be killed: a call fails while a sibling task still runs for seconds; the pool is used again at once.
            # The old worker thread must be gone before an instance with the same id starts
            sc['pool']['start_method'] = 'threading'
            sc['pool']['n_jobs'] = max(2, sc['pool']['n_jobs'])
            sc['pool'].pop('keep_alive', None)
            nn = rng.randint(4, 8)
            bad = rng.randrange(2)
            first = {'op': rng.choice(['map', 'map_unordered']), 'n': nn, 'chunk_size': 1, 'elem': 'scalar', 'fail': {'at': [bad], 'exc': 'ValueError'},
                     'dur': {'kind': 'map', 'map': {str(1 - bad): rng.choice([3.0, 6.0])}, 'default': 0.0}}
            second = {'op': 'map', 'n': rng.randint(6, 12), 'chunk_size': 1, 'elem': 'scalar', 'dur': {'kind': 'hash', 'salt': rng.randint(0, 99), 'unit': 0.05}}
            sc['ops'] = [first, second]
            sc['all_valid'] = False
            sc['same_func'] = False
        scs.append(sc)
    return scs


def setter_judge(chk, sc, o):
    """after a setter changed a value, the functions of the next call are run by instances started after the change
    (an instance passes the extras it was started with for its whole life)"""
    if o.get('harness_error') or o.get('stuck'):
        return
    seen, changed = set(), False
    cur = {k: bool(sc['pool'].get(k)) for k in ('pass_worker_id', 'shared_objects', 'use_worker_state')}
    for opi, (op, oo) in enumerate(zip(sc['ops'], o.get('ops', []))):
        if op['op'] == 'set' and op['what'] in cur:
            if cur[op['what']] != op['value']:
                cur[op['what']] = op['value']
                changed = True
            continue
        mine = {c[3] for c in o.get('calls', []) if c[0] == opi and c[1] in ('task', 'init')}
        if changed and mine & seen:
            chk.violation('extras_follow_current_settings', {'scenario': sc}, {'op': opi, 'instances_started_before_the_change': sorted(mine & seen)[:4], 'settings_now': cur},
                          'user functions receive exactly the extras that are enabled now', input_class='setter_extras')
        if mine:
            changed = False
        seen |= {c[3] for c in o.get('calls', []) if c[0] == opi}


def run(chk):
    drv = Driver()
    rng = chk.rng
    lines, impl = [], []
    for k in range(800 if chk.tier == 'quick' else 8000):
        kind = rng.choice(['task', 'task', 'apply', 'hook'])
        a, b, c = rng.random() < .5, rng.random() < .5, rng.random() < .5
        wid = rng.randint(0, 2)
        arg = small.gen_py(rng)
        kw = {'k%d' % i: rng.randint(0, 9) for i in range(rng.randint(0, 2))} if kind == 'apply' else None
        lines.append('args kind=%s id=%d sh=%d st=%d wid=%d arg=%s kw=%s' % (kind, a, b, c, wid, small.py_tok(arg), small.py_tok(kw) if kw is not None else '-'))
        try:
            impl.append(small.args_run(kind, a, b, c, wid, arg, kw))
        except TypeError as e:
            impl.append('TypeError')
        except Exception as e:  # noqa: the helpers cannot be driven stand-alone on this tree: a broken tie (the whole-call suites below still run)
            impl.append('harness-cannot-drive-the-helpers: ' + repr(e)[:120])
    out = drv.run(lines)
    for line, i, m in zip(lines, impl, out):
        if i == 'TypeError':
            continue    # e.g. a keyword supplied twice: the call itself is invalid Python, nothing to compare
        chk.count('argument convention (worker helpers) vs Mpire.Args', key=line, nontrivial=True, sample={'line': line, 'impl': i},
                  kind=line.split(' ')[1], extras=line.split(' ')[2] + line.split(' ')[3] + line.split(' ')[4], arg=line.split('arg=')[1][:1])
        if i != m:
            chk.mismatch('argument convention vs Mpire.Args', {'line': line}, i, m)
            if i.startswith('harness-cannot'):
                continue
            exp = []
            f = dict(x.split('=', 1) for x in line.split(' ')[1:])
            if f['id'] == '1':
                exp.append('a' + f['wid'])
            if f['sh'] == '1':
                exp.append('s.SHARED')
            if f['st'] == '1':
                exp.append('s.STATE')
            got = i.split(' ')[0][4:].split('|')[:len(exp)] if i.startswith('pos=') else []
            if got != exp:
                chk.violation('extras_order', {'line': line}, {'received_first': got}, f'first positional arguments == {exp}', input_class='extras')
    scs = id_scenarios(rng, 240 if chk.tier == 'quick' else 4000)
    obs = run_scenarios(chk, 'whole calls under DetSim over all 8 subsets of extras', scs, {'C13'},
                  nontrivial=lambda sc, o: len(o.get('calls', [])) >= 2,
                  dist=lambda sc, o: {'extras': '%d%d%d' % (bool(sc['pool'].get('pass_worker_id')), bool(sc['pool'].get('shared_objects')), bool(sc['pool'].get('use_worker_state'))),
                                      'start': sc['pool']['start_method'], 'apply': any(op['op'] == 'apply_batch' for op in sc['ops']),
                                      'setter': any(op['op'] == 'set' for op in sc['ops'])})
    for sc, o in zip(scs, obs):
        setter_judge(chk, sc, o)
    # an apply worker that is killed inside its task is replaced: the replacement is THE instance of that id (no id is held by two
    # live instances, every task still sees its own worker's id and private state)
    ks = []
    for _ in range(24 if chk.tier == 'quick' else 300):
        nj = rng.choice([2, 3, 4])
        k = rng.randint(nj + 1, 2 * nj + 2)
        victim = rng.randrange(nj)
        ks.append({'seed': rng.randint(0, 10 ** 6), 'pool': {'n_jobs': nj, 'start_method': 'fork', 'pass_worker_id': True, 'use_worker_state': True,
                                                           'shared_objects': rng.random() < .5}, 'relax_shape': True,
                   'ops': [{'op': 'apply_batch', 'tasks': [{'idx': i, 'gap': 0.01} for i in range(k)], 'dur': {'kind': 'map', 'map': {}, 'default': 0.05}, 'get_timeout': 30},
                           {'op': 'apply_batch', 'tasks': [{'idx': i} for i in range(nj)], 'dur': {'kind': 'map', 'map': {}, 'default': 0.02}, 'get_timeout': 30}],
                   'inject': [{'kind': 'sigkill', 'victim': 'Worker-%d' % victim, 'when': 'in_user', 'nth': rng.randint(1, 3)}]})
        if rng.random() < .5:
            # two workers die within one round of the death watch (the OOM killer rarely stops at one)
            other = rng.choice([w for w in range(nj) if w != victim])
            ks[-1]['inject'].append({'kind': 'sigkill', 'victim': 'Worker-%d' % other, 'when': 'in_user', 'nth': ks[-1]['inject'][0]['nth']})
    run_scenarios(chk, 'an apply worker killed inside its task and replaced: ids and state of the instances (DetSim)', ks, {'C13'},
                  nontrivial=lambda sc, o: bool(o.get('injected')), dist=lambda sc, o: {'n_jobs': sc['pool']['n_jobs'], 'victim': sc['inject'][0]['victim']})

    # apply tasks that overrun their time limit: a process worker is interrupted and goes on with the next task, a worker thread cannot be
    # interrupted and goes on when its function returns — either way it is the same instance afterwards, with the id and the state object it had
    at = []
    for _ in range(40 if chk.tier == 'quick' else 600):
        nj = rng.choice([1, 1, 2])
        sm = rng.choice(['fork', 'threading'])
        k = rng.randint(3, 6)
        slow = rng.sample(range(k - 1), rng.randint(1, 2))
        at.append({'seed': rng.randint(0, 10 ** 6), 'pool': {'n_jobs': nj, 'start_method': sm, 'pass_worker_id': rng.random() < .6, 'use_worker_state': True,
                                                           'shared_objects': rng.random() < .4}, 'relax_shape': True,
                   'ops': [{'op': 'apply_batch', 'tasks': [{'idx': i} for i in range(k)], 'init': True, 'exit': True, 'task_timeout': 0.2, 'get_timeout': 60,
                            'dur': {'kind': 'map', 'map': {str(i): (5.0 if sm == 'fork' else rng.choice([0.5, 0.8])) for i in slow}, 'default': 0.01}},
                           {'op': 'apply_batch', 'tasks': [{'idx': i} for i in range(nj + 1)], 'init': True, 'exit': True, 'dur': {'kind': 'map', 'map': {}, 'default': 0.01}, 'get_timeout': 60},
                           {'op': 'stop_and_join'}]})
    run_scenarios(chk, 'apply tasks that overrun their limit, then more tasks on the same workers: ids and state of the instances (DetSim)', at, {'C13'},
                  nontrivial=lambda sc, o: True, dist=lambda sc, o: {'n_jobs': sc['pool']['n_jobs'], 'start': sc['pool']['start_method']})

    # apply submissions: worker_init fails in one worker while another one is in the middle of a long task; the caller goes on using the
    # pool — whatever replaces the old workers does not run while they still do
    fb = []
    for _ in range(30 if chk.tier == 'quick' else 400):
        nj = rng.choice([2, 3])
        fb.append({'seed': rng.randint(0, 10 ** 6), 'pool': {'n_jobs': nj, 'start_method': 'fork', 'pass_worker_id': True, 'use_worker_state': rng.random() < .5}, 'relax_shape': True,
                   'ops': [{'op': 'apply_batch', 'tasks': [{'idx': i} for i in range(nj)], 'init': True, 'fail': {'init': 'Worker-0', 'exc': 'ValueError'}, 'get_timeout': 10,
                            'dur': {'kind': 'map', 'map': {str(i): rng.choice([1.0, 2.0]) for i in range(1, nj)}, 'default': 0.01}, 'wait_order': [0]},
                           {'op': 'apply_batch', 'tasks': [{'idx': i} for i in range(2 * nj)], 'dur': {'kind': 'map', 'map': {}, 'default': 0.05}, 'get_timeout': 30}]})
    run_scenarios(chk, 'a pool that failed in one worker while another was busy, used again at once (DetSim)', fb, {'C13'}, nontrivial=lambda sc, o: True,
                  dist=lambda sc, o: {'n_jobs': sc['pool']['n_jobs']})
    # a call that fails, then - on the same pool - a call in which all workers reach their lifespan at about the same moment, again and
    # again: every worker id is held by one live instance at a time (whatever the failed call left behind must not take part)
    fr = []
    for _ in range(40 if chk.tier == 'quick' else 600):
        nj = rng.choice([2, 3, 4])
        fr.append({'seed': rng.randint(0, 10 ** 6), 'pool': {'n_jobs': nj, 'start_method': rng.choice(['fork', 'fork', 'threading']), 'pass_worker_id': True,
                                                           'use_worker_state': rng.random() < .5}, 'relax_shape': True,
                   'ops': [{'op': rng.choice(['map', 'imap_unordered']), 'n': rng.randint(nj, 3 * nj), 'chunk_size': 1, 'elem': 'scalar', 'fail': {'at': [rng.randrange(nj)]},
                            'worker_lifespan': rng.choice([None, 1, 2])},
                           {'op': rng.choice(['map', 'map_unordered', 'imap']), 'n': rng.randint(3 * nj, 6 * nj), 'chunk_size': 1, 'elem': 'scalar', 'worker_lifespan': 1,
                            'dur': {'kind': 'map', 'map': {}, 'default': rng.choice([0.01, 0.05])}}]})
    run_scenarios(chk, 'a failed call, then a call whose workers all reach their lifespan together (DetSim)', fr, {'C13', 'C03'}, nontrivial=lambda sc, o: True,
                  dist=lambda sc, o: {'n_jobs': sc['pool']['n_jobs'], 'start': sc['pool']['start_method']})
    # kept-alive workers whose first call(s) bring no worker_init and a later one does: the state object the tasks have been using is the
    # one the late worker_init and everything after it gets
    li = []
    for _ in range(40 if chk.tier == 'quick' else 600):
        nj = rng.choice([1, 2, 3])
        ops = [{'op': rng.choice(['map', 'map_unordered', 'imap']), 'n': rng.randint(nj, 3 * nj), 'chunk_size': 1, 'elem': 'scalar'} for _k in range(rng.randint(1, 2))]
        ops.append({'op': rng.choice(['map', 'map_unordered', 'imap']), 'n': rng.randint(nj, 3 * nj), 'chunk_size': 1, 'elem': 'scalar', 'init': True, 'exit': rng.random() < .5})
        if rng.random() < .5:
            ops.append({'op': 'map', 'n': rng.randint(nj, 2 * nj), 'chunk_size': 1, 'elem': 'scalar', 'init': True})
        ops.append({'op': 'stop_and_join'})
        li.append({'seed': rng.randint(0, 10 ** 6), 'pool': {'n_jobs': nj, 'start_method': rng.choice(['fork', 'threading']), 'keep_alive': True, 'use_worker_state': True,
                                                           'pass_worker_id': rng.random() < .5}, 'ops': ops, 'relax_shape': True, 'same_func': rng.random() < .3})
    run_scenarios(chk, 'a worker_init that arrives after the kept-alive workers have already run tasks (DetSim)', li, {'C13'}, nontrivial=lambda sc, o: True,
                  dist=lambda sc, o: {'n_jobs': sc['pool']['n_jobs'], 'start': sc['pool']['start_method']})

    def search():
        extra = id_scenarios(random.Random(chk.seed * 29 + 1), 800)
        for sc, o in zip(extra, run_scenarios(chk, 'search', extra, {'C13'})):
            setter_judge(chk, sc, o)
    return search
