"""Rebinds the module globals of mpire.* to the DetSim shims.  No file of /repo is touched."""
import importlib
import sys

from . import sim

_saved = []


def _set(mod, name, val):
    _saved.append((mod, name, getattr(mod, name, _MISSING)))
    setattr(mod, name, val)


_MISSING = object()


import weakref

MANAGERS = weakref.WeakSet()      # every stand-in manager that still exists (a real one's process lives as long as its object)


class FakeManager:
    """stand-in for NonPickledSyncManager / SyncManager (no OS process): like the real one its process is stopped by shutdown()
    or when the object is garbage-collected"""

    def __init__(self, *a, **k):
        self.started = False
        self.manager = self           # NonPickledSyncManager.manager: the wrapped SyncManager
        MANAGERS.add(self)

    def start(self):
        # like the real one: the server process is spawned, the caller waits for its address, and only then does the object get its
        # `shutdown` — a caller that is interrupted in between holds an object without one, and a process nobody will stop
        sim.S.yield_point('manager.start', self)
        self.started = True
        sim.S.ledger['manager_started'] += 1
        sim.S.yield_point('manager.start+', self)
        self.shutdown = self._shutdown

    def _shutdown(self):
        self.started = False
        if sim.S is not None:
            sim.S.ledger['manager_stopped'] += 1

    def list(self, init=()):
        return sim.SharedList(init)

    def Lock(self):
        lk = sim.RLock()
        if getattr(self, 'lock_role', None):
            lk.role = self.lock_role
        return lk

    def register(self, name, cls):
        # SyncManager.register: `manager.<name>(…)` then creates an object that lives in the manager and is shared by every process
        self.__dict__.setdefault('registry', {})[name] = cls

    def __getattr__(self, name):
        reg = self.__dict__.get('registry') or {}
        if name in reg:
            cls = reg[name]

            def make(*a, **k):
                shared = type('Shared' + cls.__name__, (cls,), {'__deepcopy__': lambda self_, memo: self_})
                obj = cls.__new__(shared)
                # (the object's own __init__ would create an OS lock: it gets a simulated one instead)
                obj.lock = sim.RLock()
                obj.highest_position = None
                return obj
            return make
        raise AttributeError(name)

    def __deepcopy__(self, memo):
        # what a forked worker holds is its own copy; the manager PROCESS belongs to the object of the process that started it
        v = object.__new__(FakeManager)
        v.started = False
        v.manager = None
        return v


def install(seed, max_steps=3000000, max_virtual=3000.0):
    """Creates a fresh scheduler and rebinds mpire's globals.  Returns the scheduler."""
    uninstall()
    S = sim.Sched(seed, max_steps=max_steps, max_virtual=max_virtual)
    sim.S = S
    S.register_main()
    import mpire.async_result
    import mpire.comms
    import mpire.context
    import mpire.insights
    import mpire.pool
    import mpire.progress_bar
    import mpire.signal
    import mpire.tqdm_utils
    import mpire.utils
    import mpire.worker
    from mpire.worker import AbstractWorker

    class SimThreadingWorker(AbstractWorker, sim.Thread):
        pass

    class SimForkWorker(AbstractWorker, sim.Process):
        pass

    for key in ('fork', 'forkserver', 'spawn'):
        _saved.append((('dict', mpire.context.MP_CONTEXTS['mp']), key, mpire.context.MP_CONTEXTS['mp'][key]))
        mpire.context.MP_CONTEXTS['mp'][key] = sim.ProcCtx
    _saved.append((('dict', mpire.context.MP_CONTEXTS), 'threading', mpire.context.MP_CONTEXTS['threading']))
    mpire.context.MP_CONTEXTS['threading'] = sim.ThreadCtx
    _set(mpire.worker, 'ThreadingWorker', SimThreadingWorker)
    _set(mpire.worker, 'ForkWorker', SimForkWorker)
    _set(mpire.worker, 'ForkServerWorker', SimForkWorker)
    _set(mpire.worker, 'SpawnWorker', SimForkWorker)
    _set(mpire.pool, 'threading', sim.threading_shim)
    _set(mpire.pool, 'time', sim.time_shim)
    _set(mpire.pool, 'os', sim.os_shim)
    _set(mpire.pool, 'signal', sim.signal_shim)
    _set(mpire.comms, 'time', sim.time_shim)
    _set(mpire.comms, 'threading', sim.threading_shim)
    _set(mpire.worker, 'time', sim.time_shim)
    _set(mpire.worker, 'signal', sim.signal_shim)
    _set(mpire.worker, 'current_thread', sim.cur_thread)
    _set(mpire.worker, 'main_thread', sim.proc_main_thread)
    _set(mpire.worker, 'Thread', sim.Thread)
    _set(mpire.async_result, 'threading', sim.threading_shim)
    _set(mpire.utils, 'time', sim.time_shim)
    _set(mpire.insights, 'time', sim.time_shim)
    _set(mpire.insights, 'NonPickledSyncManager', FakeManager)
    _set(mpire.signal, 'current_thread', sim.cur_thread)
    _set(mpire.signal, 'main_thread', sim.proc_main_thread)
    _set(mpire.signal, 'signal_', sim.sim_signal)
    _set(mpire.signal, 'getsignal', sim.sim_getsignal)
    _set(mpire.signal, 'SIG_IGN', sim.SIG_IGN)
    if hasattr(mpire.signal, 'SIG_DFL'):
        _set(mpire.signal, 'SIG_DFL', sim.SIG_DFL)
    if hasattr(mpire.signal, 'os'):
        _set(mpire.signal, 'os', sim.os_shim)
    _set(mpire.signal, 'SIGINT', sim.SIGINT)
    _set(mpire.progress_bar, 'threading', sim.threading_shim)
    _set(mpire.progress_bar, 'Thread', sim.Thread)
    _set(mpire.progress_bar, 'Event', sim.Event)

    # tqdm manager: no SyncManager process — TqdmManager.start_manager itself is the library's; what it gets from create_sync_manager is
    # the stand-in (a sim lock, a position register that lives in this process)
    TM = mpire.tqdm_utils.TqdmManager

    def _fake_sync_manager(use_dill):
        m = FakeManager()
        m.lock_role = 'tqdm_lock'
        return m

    _set(mpire.tqdm_utils, 'create_sync_manager', _fake_sync_manager)
    TM.MANAGER = None
    TM.LOCK = None
    TM.POSITION_REGISTER = None

    # class attributes are per OS process: what a (simulated) worker PROCESS stores in its copy of TqdmManager must not show
    # up in the main process.  Worker THREADS (start_method='threading') really share the class: left as it is.
    orig_set_details = TM.__dict__['set_connection_details']

    def set_connection_details(cls, details):
        cur = sim.S.cur
        if cur is not None and cur.proc is not None and cur.proc is not sim.S.mainproc:
            return
        return orig_set_details.__func__(cls, details)

    _saved.append((TM, 'set_connection_details', orig_set_details))
    TM.set_connection_details = classmethod(set_connection_details)
    # tqdm's class-level write lock is process-global state as well: restored when the run is torn down
    for _style in (None,):
        try:
            _cl = mpire.tqdm_utils.get_tqdm(_style)
            _saved.append((_cl, '_lock', _cl.__dict__.get('_lock', _MISSING)))
        except Exception:
            pass
    # no real monitor thread of tqdm may touch simulated locks
    try:
        import tqdm as _tq
        _saved.append((_tq.tqdm, 'monitor_interval', _tq.tqdm.monitor_interval))
        _tq.tqdm.monitor_interval = 0
    except Exception:
        pass
    # tqdm's own clock (mininterval decisions) follows virtual time so that the printed sequence is deterministic
    import tqdm.std
    _set(tqdm.std, 'time', sim.time_shim.time)

    # name the comms objects so that traces carry roles
    WC = mpire.comms.WorkerComms
    orig_init_comms = WC.__dict__['init_comms']

    def init_comms(self):
        orig_init_comms(self)
        tag_comms(self)

    _saved.append((WC, 'init_comms', orig_init_comms))
    WC.init_comms = init_comms
    orig_init = WC.__dict__['__init__']

    def __init__(self, *a, **k):
        orig_init(self, *a, **k)
        for _name, _role in (('_keep_order', 'keep_order'), ('_exception_thrown', 'exception_thrown'), ('_kill_signal_received', 'kill_signal_received'),
                             ('_worker_restart_condition', 'restart_condition'), ('exception_lock', 'exception_lock')):
            try:
                getattr(self, _name).role = getattr(sim.S, 'role_prefix', '') + _role
            except Exception:  # noqa
                pass

    _saved.append((WC, '__init__', orig_init))
    WC.__init__ = __init__
    orig_reinit = WC.__dict__['reinit_comms_for_worker']

    def reinit_comms_for_worker(self, worker_id):
        orig_reinit(self, worker_id)
        try:
            pre = getattr(sim.S, 'role_prefix', '')
            self._worker_running_task[worker_id].role = f'{pre}running_task[{worker_id}]'
            self._worker_running_task[worker_id].get_lock().role = f'{pre}running_task_lock[{worker_id}]'
        except Exception:  # noqa
            pass

    _saved.append((WC, 'reinit_comms_for_worker', orig_reinit))
    WC.reinit_comms_for_worker = reinit_comms_for_worker

    # record every value the result iterator hands out (the consumer side of the protocol)
    IT = mpire.async_result.UnorderedAsyncResultIterator
    orig_next = IT.__dict__['next']

    def next_(self, block=True, timeout=None):
        v = orig_next(self, block, timeout)
        sim.S.rec('iter.next', self.job_id, v)
        return v

    # job ids are drawn from a process-global counter: restart it so that a scenario does not depend on what ran before it
    import itertools as _it
    _set(mpire.async_result, 'job_counter', _it.count(start=first_job_id()))
    _saved.append((IT, 'next', orig_next))
    _saved.append((IT, '__next__', IT.__dict__['__next__']))
    IT.next = next_
    IT.__next__ = next_

    # the pool's own stop event and the drain step of the forced shutdown get names / records (C05: Shutdown model)
    WP = mpire.pool.WorkerPool
    orig_pool_init = WP.__dict__['__init__']

    def pool_init(self, *a, **k):
        orig_pool_init(self, *a, **k)
        try:
            evs = [(n, v) for n, v in vars(self).items() if isinstance(v, sim.Event)]
            named = [v for n, v in evs if 'stop' in n]
            for v in (named or ([evs[0][1]] if len(evs) == 1 else [])):
                v.role = getattr(sim.S, 'role_prefix', '') + 'hstop'
        except Exception:  # noqa
            pass

    _saved.append((WP, '__init__', orig_pool_init))
    WP.__init__ = pool_init
    orig_drain = WC.__dict__.get('drain_results_queue_terminate_worker')
    if orig_drain is not None:
        def drain_tw(self, *a, **k):
            sim.S.rec('drain')
            return orig_drain(self, *a, **k)

        _saved.append((WC, 'drain_results_queue_terminate_worker', orig_drain))
        WC.drain_results_queue_terminate_worker = drain_tw

    # record every attempt to set the outcome of an apply job (who, which job, what, whether it was the first)
    AR = mpire.async_result.AsyncResult
    orig_set = AR.__dict__['_set']

    def set_(self, success, result):
        try:
            first = not self._ready_event.is_set()
            sim.S.rec('settle', self.job_id, bool(success), type(result).__name__, first)
        except Exception:
            pass
        return orig_set(self, success, result)

    _saved.append((AR, '_set', orig_set))
    AR._set = set_

    # who reports a failing call, and what the caller then fetches (vocabulary of Model/FirstFailure.lean): every look at the
    # exception flag, every failure stored under a job id (with the identity of the exception object), every fetch
    orig_thrown = WC.__dict__['exception_thrown']

    def exception_thrown(self):
        r = orig_thrown(self)
        sim.S.rec('exc.look', bool(r))
        return r

    _saved.append((WC, 'exception_thrown', orig_thrown))
    WC.exception_thrown = exception_thrown

    def watch_attr(cls, attr, failed):
        # `_set` is not atomic (it takes a lock first and sets an event afterwards, both scheduling points): what a reader sees
        # changes at the assignment of the attribute that holds the exception, so that is where the store is recorded
        key = '_sim_' + attr

        def g(self):
            return self.__dict__.get(key)

        def s_(self, v):
            self.__dict__[key] = v
            if v is not None and failed(self):
                sim.S.rec('exc.set', self.job_id, id(v), type(v).__name__)

        _saved.append((cls, attr, _MISSING))
        setattr(cls, attr, property(g, s_))

    def wrap_fetch(cls):
        o = cls.__dict__.get('get_exception')
        if o is None:
            return

        def get_exception(self, _o=o):
            sim.S.rec('exc.fetch-begin', self.job_id)
            r = _o(self)
            sim.S.rec('exc.fetch', self.job_id, id(r), type(r).__name__)
            return r

        _saved.append((cls, 'get_exception', o))
        cls.get_exception = get_exception

    def wrap_try(cls):
        # … and every attempt is recorded when it begins: one that is never followed by the assignment had no effect (a job that
        # keeps its first outcome; two setters racing on the reusable MAIN / INIT entries)
        o = cls.__dict__.get('_set')
        if o is None:
            return

        def _set(self, success, result, _o=o):
            if not success:
                sim.S.rec('exc.try', self.job_id, id(result), type(result).__name__)
            r = _o(self, success, result)
            if not success:
                sim.S.rec('exc.try-end', self.job_id, id(result))
            return r

        _saved.append((cls, '_set', o))
        cls._set = _set

    for cls in (mpire.async_result.UnorderedAsyncResultIterator, AR):
        wrap_try(cls)
    watch_attr(mpire.async_result.UnorderedAsyncResultIterator, '_exception', lambda self: True)
    watch_attr(AR, '_value', lambda self: self._success is False)
    for cls in (mpire.async_result.UnorderedAsyncResultIterator, mpire.async_result.AsyncResultWithExceptionGetter, AR):
        wrap_fetch(cls)
    return S


_FIRST = []


def first_job_id():
    """the id the library gives to the first job of a process (read once from the untouched module)"""
    if not _FIRST:
        import mpire.async_result as ar
        import copy as _copy
        _FIRST.append(next(_copy.copy(ar.job_counter)))
    return _FIRST[0]


def tag_comms(c):
    """names the comms objects so that traces carry roles.  Queues are recognised by what they are (the list of joinable queues =
    the per-worker task queues, the single one = the results queue); the other objects by the private attribute that holds them,
    matched by its exact name or, failing that, by a distinctive part of it.  An object that cannot be found keeps no role: the
    trace-based ties then report a broken correspondence (and `roles_missing` says which), but the run itself is not disturbed."""
    missing = []
    d = dict(vars(c))

    def tag(x, role):
        try:
            x.role = getattr(sim.S, 'role_prefix', '') + role       # a second pool's objects carry a prefix
            return True
        except Exception:  # noqa
            return False
    # queues, structurally
    qlists = [v for v in d.values() if isinstance(v, list) and v and all(isinstance(q, sim.JoinableQueue) for q in v)]
    if qlists:
        for i, q in enumerate(qlists[0]):
            tag(q, 'tq[%d]' % i)
    else:
        missing.append('task queues')
    singles = [v for v in d.values() if isinstance(v, sim.JoinableQueue)]
    if singles:
        tag(singles[0], 'rq')
    else:
        missing.append('results queue')
    wanted = (('_worker_running_task', 'running_task', ('running_task',)), ('_worker_working_on_job', 'working_on_job', ('working_on',)),
              ('_results_received', 'results_received', ('results_received',)), ('_worker_restart_array', 'restart_array', ('restart_array', 'restarts')),
              ('_workers_dead', 'workers_dead', ('dead',)), ('_workers_time_task_started', 'time_task_started', ('time_task', 'task_started')),
              ('_exception_job_id', 'exception_job_id', ('exception_job',)), ('_tasks_completed_array', 'tasks_completed', ('tasks_completed',)),
              ('_progress_bar_shutdown', 'pb_shutdown', ('bar_shutdown',)), ('_progress_bar_complete', 'pb_complete', ('bar_complete',)))
    for name, role, hints in wanted:
        obj = d.get(name)
        if obj is None:
            cands = [v for k, v in d.items() if any(h in k for h in hints)]
            obj = cands[0] if len(cands) == 1 else None
        if obj is None:
            missing.append(role)
            continue
        if role == 'running_task':
            try:
                for i, v in enumerate(obj):
                    v.role = f'running_task[{i}]'
                    v.get_lock().role = f'running_task_lock[{i}]'
            except Exception:  # noqa
                missing.append(role)
        else:
            tag(obj, role)
    if sim.S is not None:
        sim.S.roles_missing = missing


def uninstall():
    try:
        import mpire.tqdm_utils as _tu
        _tu.TqdmManager.MANAGER = None
        _tu.TqdmManager.LOCK = None
        _tu.TqdmManager.POSITION_REGISTER = None
    except Exception:
        pass
    while _saved:
        tgt, name, old = _saved.pop()
        if isinstance(tgt, tuple) and tgt[0] == 'dict':
            tgt[1][name] = old
        elif old is _MISSING:
            try:
                delattr(tgt, name)
            except AttributeError:
                pass
        else:
            setattr(tgt, name, old)
    if sim.S is not None:
        try:
            sim.S.shutdown()
        except Exception:
            pass
        try:
            # the caller's (real) thread was bound to this scheduler: the binding must not keep the whole run alive
            import threading as _rt
            if getattr(_rt.current_thread(), '_sim_sched', None) is sim.S:
                _rt.current_thread()._sim_sched = None
        except Exception:
            pass
        sim.S = None
