"""DetSim: run the real mpire pool/worker/comms/async_result code of /repo in ONE OS process under a seeded
deterministic scheduler with virtual time.

Real Python threads are used as coroutines: exactly one is released at a time; every operation on a simulated
primitive is a scheduling point.  Nothing in /repo is edited: `install()` rebinds module globals of mpire.* .
Process semantics (fork-copy of the worker object, signals, SIGKILL) are emulated on top of sim threads.

This is NOT a proof technique: it is how model and implementation are run on the same histories, the search
engine for failing inputs and the replay vehicle.
"""
import collections
import copy
import itertools
import queue as _queue
import random
import sys
import threading as _th
import types

_real_Thread = _th.Thread
_real_Sem = _th.Semaphore


class SimAbort(BaseException):
    """Raised inside sim threads when the run is torn down."""


class Stuck(BaseException):
    """Deadlock or livelock detected (raised in the main sim thread)."""

    def __init__(self, kind, info):
        super().__init__(f'{kind}: {info}')
        self.kind, self.info = kind, info


class Proc:
    """A simulated OS process: signal handlers, pending signals, liveness."""
    _pids = itertools.count(50000)

    def __init__(self, name, parent=None):
        self.pid = next(Proc._pids)
        self.name = name
        # fork: the child starts with the signal dispositions its parent has at that moment
        self.handlers = dict(parent.handlers) if parent is not None else {}
        self.pending = []
        self.killed = False
        self.main_st = None
        self.parent = parent


class St:
    """Scheduler-side state of one sim thread."""

    def __init__(self, name):
        self.name = name
        self.role = name
        self.gate = _real_Sem(0)
        self.started = False
        self.done = False
        self.wait_pred = None
        self.deadline = None
        self.wait_desc = ''
        self.proc = None
        self.points = 0
        self.held = 0            # sim locks held (crash injection is skipped while > 0)
        self.starve_until = 0
        self.real = None
        self.exc = None

    def __deepcopy__(self, memo):
        return self


class Sched:
    def __init__(self, seed, max_steps=3000000, max_virtual=600.0, max_idle_virtual=120.0):
        self.rng = random.Random(seed)
        self.seed = seed
        self.now = 1000.0
        self.t0 = self.now
        self.threads = []
        self.cur = None
        self.steps = 0
        self.max_steps = max_steps
        self.max_virtual = max_virtual
        self.abort = False
        self.stuck = None
        self.trace = []
        self.tracing = True
        self.rules = []           # preemption rules: f(sched, st, op, obj, val) -> K (steps to starve) or 0
        self.point_hooks = []     # f(sched, st) called at every scheduling point of st (before the switch)
        self.procs = {}
        self.mainproc = None
        self.ledger = collections.Counter()
        self.thread_excs = []
        self.inst_cfg = {}
        self.last_progress_now = self.now
        self.max_idle_virtual = max_idle_virtual
        self.last_progress_step = 0

    # -- tracing --
    PROGRESS = ('q.put', 'q.get', 'user', 'iter.next', 'yield', 'start', 'thread-end', 'ask', 'draw')

    def rec(self, *ev):
        if ev and ev[0] in self.PROGRESS:
            self.last_progress_now = self.now
            self.last_progress_step = self.steps
        if self.tracing:
            self.trace.append((self.steps, round(self.now - self.t0, 6), self.cur.role if self.cur else '?') + ev)

    # -- threads --
    def register_main(self):
        st = St('main')
        st.role = 'main'
        st.started = True
        st.real = _th.current_thread()
        st.real._sim_sched = self
        p = Proc('main')
        p.main_st = st
        p.handlers[SIGINT] = default_int_handler
        st.proc = p
        self.mainproc = p
        self.procs[p.pid] = p
        self.threads.append(st)
        self.cur = st
        return st

    def runnable(self, t):
        if not t.started or t.done:
            return False
        if t.proc is not None and t.proc.killed:
            return False
        if t.proc is not None and t.proc.pending and t.proc.main_st is t:
            return True
        if t.wait_pred is None:
            return True
        if t.wait_pred():
            return True
        if t.deadline is not None and t.deadline <= self.now:
            return True
        return False

    def _candidates(self):
        c = [t for t in self.threads if self.runnable(t)]
        if len(c) > 1:
            c2 = [t for t in c if t.starve_until <= self.steps]
            if c2:
                return c2
        return c

    def _fail(self, kind, info):
        """Called by whichever sim thread detects the problem."""
        self.stuck = (kind, info)
        self.abort = True
        me = self.cur
        main = self.threads[0]
        if me is main:
            raise Stuck(kind, info)
        main.gate.release()
        raise SimAbort()

    def check_abort(self):
        if getattr(_th.current_thread(), '_sim_sched', None) is not self:
            # a thread left over from an earlier run (it did not unwind in time) woke up: it has no business in this run
            raise SimAbort()
        if self.abort:
            me_ident = _th.get_ident()
            main = self.threads[0]
            if main.real is not None and main.real.ident == me_ident and self.stuck:
                k, i = self.stuck
                raise Stuck(k, i)
            raise SimAbort()

    def switch(self, final=False):
        """Scheduling point of the current thread (final=True: the thread is finished and only hands over)."""
        self.check_abort()
        me = self.cur
        me.points += 1
        for h in list(self.point_hooks):
            h(self, me)
        self.steps += 1
        if self.steps > self.max_steps:
            self._fail('livelock', f'step budget {self.max_steps} exceeded at virtual t={self.now - self.t0:.2f}; ' + self.describe())
        while True:
            cands = self._candidates()
            if cands:
                break
            dls = [t.deadline for t in self.threads
                   if t.started and not t.done and t.deadline is not None and not (t.proc and t.proc.killed)]
            if not dls:
                self._fail('deadlock', self.describe())
            self.now = max(self.now, min(dls))
            if self.now - self.t0 > self.max_virtual:
                self._fail('livelock', f'virtual time budget {self.max_virtual}s exceeded; ' + self.describe())
            if self.now - self.last_progress_now > self.max_idle_virtual and self.steps - self.last_progress_step > 50000:
                self._fail('livelock', f'no protocol event for {self.max_idle_virtual} virtual seconds and 50000 scheduling steps; ' + self.describe())
        nxt = cands[0] if len(cands) == 1 else self.rng.choice(cands)
        if nxt is not me:
            self.cur = nxt
            nxt.gate.release()
            if final:
                return
            me.gate.acquire()
            self.check_abort()
        self._deliver_pending()

    def describe(self):
        return '; '.join(f'{t.role}:{t.wait_desc or "running"}' for t in self.threads
                         if t.started and not t.done and not (t.proc and t.proc.killed))[:1500]

    def yield_point(self, op='', obj=None, val=None):
        me = self.cur
        pause = 0.0
        for r in self.rules:
            k = r(self, me, op, obj, val)
            if isinstance(k, tuple):
                pause = max(pause, k[1])
            elif k:
                me.starve_until = self.steps + k
        if pause:
            self.block_until(lambda: False, pause, 'descheduled')
            return
        self.switch()

    def post_point(self, op, obj=None):
        """right AFTER a write became visible: not a scheduling point of its own, but a schedule rule can hold the writer up here
        (a thread can be preempted between any two instructions, also between a write and whatever it does next)"""
        if not self.rules:
            return
        pause = 0.0
        for r in self.rules:
            k = r(self, self.cur, op, obj, None)
            if isinstance(k, tuple):
                pause = max(pause, k[1])
        if pause:
            self.block_until(lambda: False, pause, 'descheduled')

    def block_until(self, pred, timeout=None, desc=''):
        self.check_abort()
        me = self.cur
        me.wait_pred = pred
        me.wait_desc = desc
        me.deadline = None if timeout is None else self.now + max(0.0, timeout)
        try:
            while True:
                self.switch()
                if pred():
                    return True
                if me.deadline is not None and me.deadline <= self.now:
                    return False
        finally:
            me.wait_pred = None
            me.deadline = None
            me.wait_desc = ''

    def _deliver_pending(self):
        me = self.cur
        p = me.proc
        if p is None or p.main_st is not me:
            return
        while p.pending:
            sig = p.pending.pop(0)
            h = p.handlers.get(sig, SIG_DFL)
            self.rec('signal-delivered', p.name, sig)
            if h == SIG_IGN:
                continue
            if h == SIG_DFL:
                if sig in (SIGTERM, SIGUSR1, SIGHUP, SIGINT) and p is not self.mainproc:
                    self.kill_proc(p)      # default action: terminate
                    self.switch()          # never returns for a killed thread
                elif sig == SIGINT:
                    raise KeyboardInterrupt
                continue
            # the handler runs on top of whatever the thread was blocked in: while it runs the thread is runnable
            saved = (me.wait_pred, me.deadline, me.wait_desc)
            me.wait_pred, me.deadline, me.wait_desc = None, None, 'in signal handler'
            try:
                h(sig, None)
            finally:
                me.wait_pred, me.deadline, me.wait_desc = saved

    def kill_proc(self, p):
        p.killed = True
        for t in self.threads:
            if t.proc is p:
                if not t.done:
                    t.end_step = self.steps
                t.done = True
        self.rec('proc-killed', p.name)

    def shutdown(self):
        """Tear down: release every parked thread so it unwinds with SimAbort."""
        self.abort = True
        for t in self.threads[1:]:
            if t.real is not None and t.real.is_alive():
                t.gate.release()
        for t in self.threads[1:]:
            if t.real is not None:
                t.real.join(timeout=5)
        leaked = [t.role for t in self.threads[1:] if t.real is not None and t.real.is_alive()]
        return leaked


S = None  # the current scheduler

# ---------------------------------------------------------------------------------------------------
# signals
SIGHUP, SIGINT, SIGKILL, SIGUSR1, SIGTERM = 1, 2, 9, 10, 15
# the real constants: enum members that are not callable, SIG_DFL is falsy (0) and SIG_IGN truthy (1) — code that tests a saved
# handler for truth, or calls it, behaves as it does outside the simulation
import signal as _real_signal
SIG_DFL, SIG_IGN = _real_signal.SIG_DFL, _real_signal.SIG_IGN


def default_int_handler(sig, frame):
    raise KeyboardInterrupt


def sim_signal(sig, handler):
    st = S.cur
    p = st.proc
    if p.main_st is not st:
        raise ValueError('signal only works in main thread of the main interpreter')
    old = p.handlers.get(sig, SIG_DFL)
    p.handlers[sig] = handler
    S.rec('signal.signal', p.name, sig, getattr(handler, '__name__', str(handler)))
    S.yield_point('signal.signal')
    return old


def sim_getsignal(sig):
    return S.cur.proc.handlers.get(sig, SIG_DFL)


def sim_kill(pid, sig):
    p = S.procs.get(pid)
    if p is None or p.killed or (p.main_st is not None and p.main_st.done):
        if p is not None:
            S.rec('os.kill-miss', p.name, sig)      # the attempt is an action of the sender even though nobody is there
        raise ProcessLookupError(pid)
    S.rec('os.kill', p.name, sig)
    if sig == SIGKILL:
        S.kill_proc(p)
    else:
        p.pending.append(sig)
    S.yield_point('os.kill')


signal_shim = types.SimpleNamespace(signal=sim_signal, getsignal=sim_getsignal, SIGINT=SIGINT, SIGHUP=SIGHUP,
                                    SIGTERM=SIGTERM, SIGUSR1=SIGUSR1, SIGKILL=SIGKILL, SIG_IGN=SIG_IGN, SIG_DFL=SIG_DFL,
                                    default_int_handler=default_int_handler)
os_shim = types.SimpleNamespace(kill=sim_kill, getpid=lambda: S.cur.proc.pid)


# ---------------------------------------------------------------------------------------------------
# primitives
class _Shared:
    role = None

    def __deepcopy__(self, memo):
        return self


class Thread:
    role = None

    _n = itertools.count()

    def __init__(self, group=None, target=None, name=None, args=(), kwargs=None, *, daemon=None):
        self._target = target
        self._args = args
        self._kwargs = kwargs or {}
        self.daemon = daemon
        self._name = name or (getattr(target, '__name__', None) or f'T{next(Thread._n)}')
        self._st = St(self._name)
        self._st.role = self._name.lstrip('_')
        if self._st.role == 'terminate_worker' and args and isinstance(args[0], int) and not isinstance(args[0], bool):
            # one clean-up thread per worker and per terminate() call: told apart in the trace
            n = getattr(S, 'tw_count', 0) if S is not None else 0
            if S is not None:
                S.tw_count = n + 1
            self._st.role = 'terminate_worker[%d]#%d' % (args[0], n)
        self._pid = None
        self._ident = None
        self._is_proc = False

    @property
    def pid(self):
        if getattr(self, '_closed', False):
            raise ValueError('process object is closed')       # multiprocessing.process.BaseProcess.ident: _check_closed()
        return self._pid if getattr(self, '_ready', True) else None

    @property
    def ident(self):
        # a Process object's ident is its pid (None until Popen() has returned); a Thread's is set before run() begins
        if self._is_proc:
            return self.pid
        return self._ident

    @property
    def name(self):
        return self._name

    @name.setter
    def name(self, v):
        self._name = v
        self._st.name = v
        self._st.role = v

    def run(self):
        if self._target:
            self._target(*self._args, **self._kwargs)

    def _entry(self):
        return self.run

    def _boot(self):
        st = self._st
        st.gate.acquire()
        try:
            S.check_abort()
            S._deliver_pending()
            self._entry()()
        except SimAbort:
            pass
        except Stuck:
            pass
        except BaseException as e:  # noqa: an exception escaping a thread is an observation, not a crash
            import traceback
            st.exc = e
            S.thread_excs.append((st.role, repr(e), traceback.format_exc()[-1500:]))
            S.rec('thread-exception', st.role, repr(e)[:200])
        finally:
            if not st.done:
                st.end_step = S.steps
            st.done = True
            if not S.abort:
                S.rec('thread-end', st.role)
                try:
                    S.switch(final=True)
                except (SimAbort, Stuck):
                    pass

    def start(self):
        S.check_abort()
        st = self._st
        if st.proc is None:
            st.proc = S.cur.proc
        S.threads.append(st)
        S.ledger['proc_started' if self._is_proc else 'thread_started'] += 1
        st.real = _real_Thread(target=self._boot, daemon=True, name='sim-' + st.name)
        st.real._sim_sched = S
        st.real.start()
        st.started = True
        st.start_step = S.steps
        pp = getattr(self, 'pool_params', None)
        if pp is not None:
            # the extras a worker instance passes to user functions are fixed when it starts
            S.inst_cfg[len(S.threads) - 1] = {'pass_worker_id': bool(pp.pass_worker_id), 'shared': pp.shared_objects is not None,
                                              'use_worker_state': bool(pp.use_worker_state)}
        self._ident = id(st)
        S.rec('start', st.role)
        S.yield_point('start')

    def join(self, timeout=None):
        ok = S.block_until(lambda: self._st.done, timeout, f'join {self._st.role}')
        if ok:
            S.ledger['joined:' + self._st.role] += 1
            self._joined = True
        if self._st.role == 'restart_handler' or str(S.cur.role).startswith('terminate_worker'):
            S.rec('x.join', self._st.role, timeout is not None, bool(ok))

    def is_alive(self):
        S.yield_point('is_alive', self)
        r = self._st.started and not self._st.done
        if self._st.role == 'restart_handler' or str(S.cur.role).startswith('terminate_worker'):
            S.rec('x.is_alive', self._st.role, bool(r))
        return r


class Process(Thread):
    """fork semantics: the child runs a deep copy of the object; sim primitives are shared by identity."""

    def __init__(self, group=None, target=None, name=None, args=(), kwargs=None, *, daemon=None):
        super().__init__(group, target, name, args, kwargs, daemon=daemon)
        self._is_proc = True
        self._closed = False

    def start(self):
        if self._closed:
            raise ValueError('process object is closed')
        p = Proc(self._name, parent=S.cur.proc)
        p.main_st = self._st
        self._st.proc = p
        self._proc = p
        self._pid = p.pid
        self._ready = False
        S.procs[p.pid] = p
        clone = copy.deepcopy(self)
        self._clone = clone
        # like multiprocessing: the child runs as soon as it is forked, but the parent's Process object only learns about it
        # (pid, is_alive(), join()) when Popen() has returned — the thread calling start() can be descheduled in between
        super().start()
        self._ready = True
        S.rec('proc.ready', self._st.role)

    def _entry(self):
        return self._clone.run

    def terminate(self):
        S.rec('proc.terminate', self._st.role)
        try:
            sim_kill(self.pid, SIGTERM)
        except ProcessLookupError:
            pass

    def kill(self):
        try:
            sim_kill(self.pid, SIGKILL)
        except ProcessLookupError:
            pass

    def close(self):
        if self._st.started and not self._st.done:
            raise ValueError('Cannot close a process while it is still running. You should first call join() or terminate().')
        self._closed = True
        S.rec('proc.close', self._st.role)
        S.ledger['proc_closed'] += 1

    def join(self, timeout=None):
        if self._closed:
            raise ValueError('process object is closed')
        if not self._st.started or not getattr(self, '_ready', False):
            raise AssertionError('can only join a started process')
        super().join(timeout)

    def is_alive(self):
        if self._closed:
            raise ValueError('process object is closed')
        if not getattr(self, '_ready', False):
            S.yield_point('is_alive', self)
            return False
        return super().is_alive()

    @property
    def exitcode(self):
        return None if not self._st.done else (-9 if self._proc.killed else 0)


class Event(_Shared):
    def __init__(self):
        self._f = False

    def set(self):
        S.yield_point('event.set', self)
        self._f = True
        S.rec('event.set', self.role)
        S.post_point('event.set+', self)

    def clear(self):
        S.yield_point('event.clear', self)
        self._f = False
        S.rec('event.clear', self.role)

    def is_set(self):
        S.yield_point('event.is_set', self, self._f)
        return self._f

    def wait(self, timeout=None):
        return S.block_until(lambda: self._f, timeout, f'event.wait {self.role}')


class Lock(_Shared):
    _re = False

    def __init__(self):
        self._owner = None
        self._cnt = 0

    def acquire(self, blocking=True, timeout=-1):
        me = S.cur
        if self._re and self._owner is me:
            self._cnt += 1
            return True
        if not blocking:
            S.yield_point('lock.try', self)
            if self._owner is not None:
                return False
        else:
            if S.rules:
                S.yield_point('lock.acquire', self)       # a schedule rule may hold the thread up right before it takes the lock
            ok = S.block_until(lambda: self._owner is None or (self._owner.done),
                               None if timeout in (-1, None) else timeout, f'lock {self.role}')
            if not ok:
                return False
            if self._owner is not None and self._owner.done and self._owner is not me:
                # owner died holding the lock (SIGKILL): a cross-process lock stays locked forever
                S.block_until(lambda: False, None, f'lock {self.role} held by dead {self._owner.role}')
        self._owner = me
        self._cnt = 1
        me.held += 1
        return True

    def release(self):
        if self._owner is None:
            raise RuntimeError('release unlocked lock')
        self._cnt -= 1
        if self._cnt == 0:
            self._owner.held -= 1
            self._owner = None
            if not S.abort:
                S.yield_point('lock.release', self)

    def locked(self):
        return self._owner is not None

    def __enter__(self):
        return self.acquire()

    def __exit__(self, *a):
        self.release()


class RLock(Lock):
    _re = True


class Condition(_Shared):
    def __init__(self, lock=None):
        self._lock = lock if lock is not None else RLock()
        self._waiters = []

    def acquire(self, *a, **k):
        return self._lock.acquire(*a, **k)

    def release(self):
        return self._lock.release()

    def __enter__(self):
        return self._lock.acquire()

    def __exit__(self, *a):
        self._lock.release()

    def wait(self, timeout=None):
        me = S.cur
        tok = [False]
        self._waiters.append(tok)
        if self.role == 'restart_condition':
            S.rec('cond.wait', self.role)
        saved = self._lock._cnt
        self._lock._owner = None
        self._lock._cnt = 0
        me.held -= 1
        ok = False
        try:
            ok = S.block_until(lambda: tok[0], timeout, f'cond.wait {self.role}')
        finally:
            if tok in self._waiters:
                self._waiters.remove(tok)
            # like threading.Condition: the lock is re-acquired also when the wait is interrupted by an exception
            if not S.abort:
                me_st = S.cur
                saved_wait = (me_st.wait_pred, me_st.deadline, me_st.wait_desc)
                while self._lock._owner is not None:
                    me_st.wait_pred = lambda: self._lock._owner is None
                    me_st.deadline = None
                    me_st.wait_desc = f'cond.reacquire {self.role}'
                    try:
                        S.switch()
                    except KeyboardInterrupt:
                        # a second interrupt while re-acquiring: keep trying (the first exception is propagating anyway)
                        pass
                me_st.wait_pred, me_st.deadline, me_st.wait_desc = saved_wait
                self._lock._owner = me
                self._lock._cnt = saved
                me.held += 1
                if self.role == 'restart_condition':
                    S.rec('cond.woken', self.role)
        return ok

    def notify(self, n=1):
        if self.role == 'restart_condition':
            S.rec('cond.notify', self.role, bool(self._waiters))
        for _ in range(n):
            if self._waiters:
                self._waiters.pop(0)[0] = True
        S.yield_point('cond.notify', self)

    def notify_all(self):
        self.notify(len(self._waiters))


class Value(_Shared):
    def __init__(self, typ, val=0, lock=True):
        self._v = val
        self._lock = lock if not isinstance(lock, bool) else RLock()

    @property
    def value(self):
        S.yield_point('value.get', self, self._v)
        if str(S.cur.role).startswith('terminate_worker') or str(getattr(self, 'role', '')).endswith('exception_job_id'):
            S.rec('value.get', self.role, self._v)
        return self._v

    @value.setter
    def value(self, v):
        S.yield_point('value.set', self, v)
        self._v = v
        S.rec('value.set', self.role, v)
        S.post_point('value.set+', self)

    def get_lock(self):
        return self._lock


class Array(_Shared):
    def __init__(self, typ, n, lock=True):
        self._a = [0] * n if isinstance(n, int) else list(n)
        if typ in ('d', 'f') or 'double' in str(typ) or 'float' in str(typ):
            self._a = [float(x) for x in self._a]
        self._lock = lock if not isinstance(lock, bool) else RLock()

    def get_lock(self):
        return self._lock

    def __len__(self):
        return len(self._a)

    def __getitem__(self, i):
        v = self._a[i]
        if isinstance(i, slice):
            v = list(v)
        S.yield_point('array.get', self, (i, v) if not isinstance(i, slice) else None)
        return self._a[i] if not isinstance(i, slice) else list(self._a[i])

    def __setitem__(self, i, v):
        S.yield_point('array.set', self, (i, v) if not isinstance(i, slice) else None)
        if isinstance(i, slice):
            self._a[i] = list(v)
        else:
            self._a[i] = v
        S.rec('array.set', self.role, i if not isinstance(i, slice) else 'slice', v if not isinstance(i, slice) else None)
        S.post_point('array.set+', self)

    def __iter__(self):
        S.yield_point('array.iter', self)
        return iter(list(self._a))


class SharedList(_Shared, list):
    """stand-in for a SyncManager list proxy"""

    def __deepcopy__(self, memo):
        return self


class JoinableQueue(_Shared):
    def __init__(self, maxsize=0):
        self._q = collections.deque()
        self._unfinished = 0
        self._closed_in = set()
        S.ledger['queue_created'] += 1

    def _chk(self, what):
        if id(S.cur.proc) in self._closed_in:
            if what == 'put':
                raise ValueError(f'Queue {self!r} is closed')
            raise OSError('handle is closed')

    def put(self, item, block=True, timeout=None):
        self._chk('put')
        S.yield_point('q.put', self)
        self._q.append(item)
        self._unfinished += 1
        S.rec('q.put', self.role, item)

    def get(self, block=True, timeout=None):
        self._chk('get')
        if not block:
            S.yield_point('q.get_nowait', self)
            if not self._q:
                raise _queue.Empty
        else:
            ok = S.block_until(lambda: len(self._q) > 0, timeout, f'q.get {self.role}')
            if not ok:
                raise _queue.Empty
        item = self._q.popleft()
        S.rec('q.get', self.role, item)
        return item

    def task_done(self):
        S.yield_point('q.task_done', self)
        if self._unfinished <= 0:
            raise ValueError('task_done() called too many times')
        self._unfinished -= 1
        S.rec('q.task_done', self.role)
        S.post_point('q.task_done+', self)

    def join(self):
        S.block_until(lambda: self._unfinished == 0, None, f'q.join {self.role}')

    def empty(self):
        S.yield_point('q.empty', self)
        return not self._q

    def qsize(self):
        return len(self._q)

    def close(self):
        self._closed_in.add(id(S.cur.proc))
        if S.cur.proc is S.mainproc:
            S.ledger['queue_closed'] += 1

    def join_thread(self):
        pass

    def cancel_join_thread(self):
        pass


class _Time:
    @staticmethod
    def time():
        return S.now

    @staticmethod
    def sleep(d):
        S.block_until(lambda: False, d, f'sleep {d}')

    @staticmethod
    def monotonic():
        return S.now

    @staticmethod
    def perf_counter():
        return S.now


time_shim = _Time


class _Threading:
    Thread = Thread
    Event = Event
    Lock = Lock
    RLock = RLock
    Condition = Condition

    @staticmethod
    def current_thread():
        return S.cur

    @staticmethod
    def main_thread():
        return S.cur.proc.main_st

    @staticmethod
    def enumerate():
        return [t for t in S.threads if t.started and not t.done]


threading_shim = _Threading


def cur_thread():
    return S.cur


def proc_main_thread():
    return S.cur.proc.main_st


class ThreadCtx:
    """stand-in for mpire.context.ThreadingContext"""
    Barrier = None
    Condition = Condition
    Event = Event
    Lock = Lock
    RLock = RLock
    Thread = Thread
    Array = Array
    JoinableQueue = JoinableQueue
    Process = Process
    Value = Value


class ProcCtx(ThreadCtx):
    """stand-in for a multiprocessing context (fork)"""
