from .sim import *  # noqa
