"""Scenario runner: executes a JSON-able history of operations on ONE real WorkerPool under DetSim and returns
JSON-able observations.  Everything random derives from the scenario's seed."""
import io
import queue as _queue
import re
import sys
import traceback

from . import install as _install
from . import sim

EXC_CLASSES = {}


class CustomError(Exception):
    def __init__(self, a, b, extra=None):
        super().__init__(a, b)
        self.extra = extra


class AttrError(ValueError):
    pass


class _Resp:
    def __init__(self, status):
        self.status = status


class PrefixedError(Exception):
    """a constructor that accepts its own args back but rewrites them (adds a prefix, folds in a default)"""

    def __init__(self, msg, limit=10):
        super().__init__('[app] %s (limit %s)' % (msg, limit))
        self.limit = limit


class WrapError(Exception):
    """the common "wrap a response" shape: replaying the constructor with e.args raises AttributeError, not TypeError"""

    def __init__(self, response):
        super().__init__(response.status)
        self.code = response.status


def _mk_exc(kind, idx, opi=0):
    """every exception carries the index of the operation that raised it, so that a stale one is recognisable"""
    if kind == 'ValueError':
        return ValueError('boom', idx, 'op%d' % opi)
    if kind == 'Custom':
        return CustomError(idx, 'x%d' % opi, extra={'k': idx})
    if kind == 'Attr':
        e = AttrError('attr', idx)
        e.payload = [idx, 'p', opi]
        return e
    if kind == 'Wrap':
        return WrapError(_Resp((idx, 'w%d' % opi)))
    if kind == 'Prefix':
        return PrefixedError('bad value %s in op%d' % (idx, opi), limit=3)
    if kind == 'TypeError':
        # the kind of error a function body raises itself (e.g. adding a str to an int) — not a wrong call signature
        return TypeError("unsupported operand type(s) for +: 'int' and 'str'", idx, 'op%d' % opi)
    if kind == 'SystemExit':
        return SystemExit(3, opi)
    if kind == 'KeyboardInterrupt':
        return KeyboardInterrupt('raised by the task itself', idx)
    if kind == 'KeyError':
        return KeyError(idx, opi)
    raise AssertionError(kind)


class BadRepr:
    """a task argument whose repr() raises"""

    def __init__(self, v):
        self.v = v

    def __repr__(self):
        raise RuntimeError('this object has no repr')


def elem_of(kind, i):
    if kind == 'badrepr':
        return BadRepr(i)
    if kind == 'scalar':
        return i
    if kind == 'tuple':
        return (i, i + 1)
    if kind == 'tuple1':
        return (i,)
    if kind == 'dict':
        return {'a': i, 'b': 2 * i}
    if kind == 'str':
        return 's%d' % i
    if kind == 'bytes':
        return b'b%d' % i
    if kind == 'list':
        return [i, 7]
    raise AssertionError(kind)


def idx_of_call(kind, args, kwargs):
    """index of the task from what the user function received, and whether the unpacking convention was respected"""
    try:
        if kind == 'badrepr':
            return (args[0].v, len(args) == 1 and not kwargs)
        if kind == 'scalar':
            return (args[0], len(args) == 1 and not kwargs)
        if kind == 'tuple':
            return (args[0], len(args) == 2 and args[1] == args[0] + 1 and not kwargs)
        if kind == 'tuple1':
            return (args[0], len(args) == 1 and not kwargs)
        if kind == 'dict':
            return (kwargs['a'], not args and kwargs == {'a': kwargs['a'], 'b': 2 * kwargs['a']})
        if kind == 'str':
            return (int(args[0][1:]), len(args) == 1 and isinstance(args[0], str))
        if kind == 'bytes':
            return (int(args[0][1:]), len(args) == 1 and isinstance(args[0], bytes))
        if kind == 'list':
            return (args[0], len(args) == 2 and args[1] == 7)
    except Exception:
        pass
    return (None, False)


def value_of(i):
    return i * 3 + 1


FALSY = [0, None, '', [], 0.0, False]


def ret_of(op, i):
    """what the task function returns for task i: normally value_of(i); with op['ret'] == 'falsy' every other task returns a falsy
    value (0, None, '', [], 0.0, False) — results are results, whatever their truth value"""
    if op.get('ret') == 'falsy' and i % 2 == 0:
        return FALSY[(i // 2) % len(FALSY)]
    if op.get('ret') == 'odd_strings' and i % 2 == 0:
        # short control-character strings are strings like any other
        return ['\0', '\1', '\2', '', '\0\0'][(i // 2) % 5]
    return value_of(i)


class LoggedList(list):
    def __init__(self, data, log):
        super().__init__(data)
        self._log = log

    def __iter__(self):
        for k, x in enumerate(list.__iter__(self)):
            self._log.append(('d', k, round(sim.S.now - sim.S.t0, 6)))
            sim.S.rec('draw', k)
            yield x

    def __deepcopy__(self, memo):
        return self


class FalsyShared(list):
    """a shared object that is not None but falsy (an empty list)"""

    def __deepcopy__(self, memo):
        return FalsyShared()


class YieldingDict(dict):
    """the pool's job cache with CPython's granularity made visible: a Python-level loop over values()/keys()/items() can be
    preempted between two elements (copy() and single look-ups cannot); changing the size meanwhile raises RuntimeError as usual"""

    def _walk(self, view):
        for x in view:
            yield x
            if sim.S is not None and not sim.S.abort:
                sim.S.yield_point('dict.iter')

    def values(self):
        return self._walk(dict.values(self))

    def items(self):
        return self._walk(dict.items(self))

    def __deepcopy__(self, memo):
        return self


class InputBroken(Exception):
    pass


def logged_gen(n, kind, log, pause=0.0, tail=0.0, raise_at=None):
    """a generator input; `pause`: virtual seconds it takes to produce each element, `tail`: … to find out that it is exhausted"""
    for k in range(n):
        if raise_at is not None and k == raise_at:
            raise InputBroken('the input iterable broke after %d elements' % k)
        if pause:
            sim.time_shim.sleep(pause)
        log.append(('d', k, round(sim.S.now - sim.S.t0, 6)))
        sim.S.rec('draw', k)
        yield elem_of(kind, k)
    if tail:
        sim.time_shim.sleep(tail)


def dur_of(spec, i):
    if not spec:
        return 0.0
    if isinstance(spec, (int, float)):
        return float(spec)
    if spec.get('kind') == 'hash':
        return ((i * 2654435761 + spec.get('salt', 0)) % 7) * spec.get('unit', 0.01)
    if spec.get('kind') == 'map':
        return float(spec['map'].get(str(i), spec.get('default', 0.0)))
    return 0.0


def exc_info(e):
    cause = e.__cause__
    return {'type': type(e).__name__, 'args': repr(e.args)[:300],
            'attrs': repr({k: v for k, v in getattr(e, '__dict__', {}).items()})[:300],
            'cause_has_traceback': bool(cause is not None and 'Traceback' in str(cause)),
            'cause_text': (str(cause)[:600] if cause is not None else None)}


def control_snapshot(pool):
    """the pool's between-calls control state (read from private attributes: only the C06 tie depends on it, so a field that cannot
    be read is reported as None instead of failing the whole run)"""
    c = getattr(pool, '_worker_comms', None)

    def rd(f):
        try:
            return f()
        except Exception:  # noqa
            return None
    return {'map_running': rd(lambda: pool._map_running), 'n_workers': rd(lambda: len(pool._workers)),
            'cache_keys': rd(lambda: sorted(k for k in pool._cache.keys())), 'initialized': rd(lambda: c._initialized),
            'keep_order': rd(lambda: c._keep_order._v), 'exception_thrown': rd(lambda: c._exception_thrown._f),
            'task_idx': rd(lambda: c._task_idx), 'last_completed': rd(lambda: list(c._last_completed_task_worker_id))}


def run_scenario(sc):
    """Runs the scenario; returns observations (dict)."""
    seed = sc.get('seed', 0)
    S = _install.install(seed, max_steps=sc.get('max_steps', 3000000), max_virtual=sc.get('max_virtual', 3000.0))
    obs = {'ops': [], 'stuck': None, 'thread_excs': [], 'harness_error': None}
    managers_before = {id(m) for m in list(_install.MANAGERS)}
    try:
        _run(sc, S, obs)
    except sim.Stuck as e:
        obs['stuck'] = {'kind': e.kind, 'info': str(e.info)[:1500]}
    except sim.SimAbort:
        obs['stuck'] = obs['stuck'] or {'kind': 'abort', 'info': ''}
    except BaseException as e:  # noqa
        obs['harness_error'] = traceback.format_exc()[-2000:]
    finally:
        obs['thread_excs'] = [(r, e, tb[-700:]) for r, e, tb in S.thread_excs][:5]
        obs['steps'] = S.steps
        obs['virtual_s'] = round(S.now - S.t0, 4)
        obs['ledger'] = dict(S.ledger)
        obs['main_points'] = S.threads[0].points
        obs['points'] = {t.role: t.points for t in S.threads[:40]}
        obs['roles_missing'] = list(getattr(S, 'roles_missing', []) or [])
        if sc.get('want_pflow'):
            try:
                obs['pflow'] = extract_pflow(S.trace, sc, obs.get('ops', []))
            except Exception as e:  # noqa
                obs['pflow_error'] = repr(e)
        if sc.get('want_ffail'):
            try:
                obs['ffail'] = extract_ffail(S.trace)
            except Exception as e:  # noqa
                obs['ffail_error'] = repr(e)
        if sc.get('want_shutdown'):
            try:
                obs['shutdown'] = extract_shutdown(S.trace)
            except Exception as e:  # noqa
                obs['shutdown_error'] = repr(e)
        if sc.get('want_aproto'):
            try:
                obs['aproto'] = extract_aproto(S.trace)
            except Exception as e:  # noqa
                obs['aproto_error'] = repr(e)
        # life of every worker instance in scheduling steps (start .. the step at which it finished or was killed; None: still alive)
        obs['lifetimes'] = [(t.role, getattr(t, 'start_step', None), getattr(t, 'end_step', None)) for t in S.threads if str(t.role).startswith('Worker-')][:200]
        if sc.get('keep_trace'):
            obs['trace'] = [tuple(_j(x) for x in ev) for ev in S.trace]
        leaked = S.shutdown()
        obs['harness_leaked_real_threads'] = leaked
        _install.uninstall()
        # the pool object is released now: a manager process it started lives exactly as long as its (stand-in) object does
        try:
            import gc
            S = None
            gc.collect()
            obs['managers_alive_after_release'] = sum(1 for m in list(_install.MANAGERS) if m.started and id(m) not in managers_before)
        except Exception as e:  # noqa
            obs['managers_alive_after_release'] = None
    obs.pop('_open_gens', None)
    obs.pop('_open_by_op', None)
    obs.pop('_pending_apply', None)
    import json as _json
    return _json.loads(_json.dumps(obs, default=lambda x: repr(x)[:120]))


def task_id_of(task, ordered, ekind, numpy_in):
    """index of a task as the dispatcher queued it"""
    a = task[1] if ordered else task
    if numpy_in:
        import numpy as _np
        a = a[0] if isinstance(a, tuple) else a
        return int(_np.asarray(a).ravel()[0])
    if ekind == 'badrepr':
        return a.v
    if ekind == 'scalar':
        return a
    if ekind in ('tuple', 'tuple1', 'list'):
        return a[0]
    if ekind == 'dict':
        return a['a']
    if ekind in ('str', 'bytes'):
        return int(a[1:])
    raise AssertionError(ekind)


def result_id_of(val, ordered, numpy_in):
    v = val[1] if ordered else val
    if numpy_in:
        import numpy as _np
        return int(round((float(_np.asarray(v).ravel()[0]) - 1) / 3))
    return (v - 1) // 3


def extract_proto(trace, i0, i1, op):
    """protocol events (vocabulary of Model/Protocol.lean) of one map-family operation, from raw trace[i0:i1]"""
    ordered = op['op'] in ('map', 'imap')
    ekind = op.get('elem', 'scalar')
    numpy_in = op.get('input') == 'nd'
    evs = []
    seen_start = set()
    failed = False
    job = None
    import re as _re
    for rec in trace[i0:i1]:
        role, kind = rec[2], rec[3]
        try:
            if kind == 'q.put' and isinstance(rec[4], str) and rec[4].startswith('tq['):
                item = rec[5]
                if isinstance(item, tuple) and len(item) == 2 and isinstance(item[0], int) and isinstance(item[1], tuple) and item[0] >= 0 \
                        and not callable(item[1][0] if item[1] else None):
                    w = int(rec[4][3:-1])
                    job = item[0]
                    evs.append('d:%d:%s' % (w, ','.join(str(task_id_of(t, ordered, ekind, numpy_in)) for t in item[1])))
            elif kind == 'q.get' and isinstance(rec[4], str) and rec[4].startswith('tq[') and role.startswith('Worker-'):
                item = rec[5]
                if isinstance(item, tuple) and len(item) == 2 and isinstance(item[0], int) and isinstance(item[1], tuple) and item[0] >= 0 \
                        and not callable(item[1][0] if item[1] else None):
                    w = int(rec[4][3:-1])
                    evs.append('p:%d:%s' % (w, ','.join(str(task_id_of(t, ordered, ekind, numpy_in)) for t in item[1])))
            elif kind == 'user' and rec[4] == 'task' and role.startswith('Worker-'):
                evs.append('x:%d:%d' % (int(role.split('-')[1]), rec[5]))
            elif kind == 'q.put' and rec[4] == 'rq':
                w, results = rec[5]
                if w is not None:
                    ok = [r for r in results if r[0] is not None and r[0] >= 0 and r[1] is True]
                    if ok:
                        evs.append('s:%d:%s' % (w, ','.join(str(result_id_of(r[2], ordered, numpy_in)) for r in ok)))
            elif kind == 'q.get' and rec[4] == 'rq':
                w, results = rec[5]
                if w is not None:
                    ok = [r for r in results if r[0] is not None and r[0] >= 0 and r[1] is True]
                    if ok:
                        evs.append('r:%s' % ','.join(str(result_id_of(r[2], ordered, numpy_in)) for r in ok))
            elif kind == 'iter.next':
                evs.append('y:%d' % result_id_of(rec[5], ordered, numpy_in))
            elif kind == 'start' and isinstance(rec[4], str) and rec[4].startswith('Worker-'):
                w = int(rec[4].split('-')[1])
                if w in seen_start:
                    evs.append('R:%d' % w)
                seen_start.add(w)
            elif (kind == 'event.set' and rec[4] == 'exception_thrown') or kind in ('inject-sigkill',):
                if not failed:
                    evs.append('F')
                    failed = True
                if kind == 'inject-sigkill':
                    evs.append('a:%d' % int(rec[4].split('-')[1]))
        except Exception as e:  # noqa: an entry we cannot interpret is reported, not guessed
            evs.append('?%s' % type(e).__name__)
    return evs, failed


def extract_kill(trace, i0, i1):
    """per worker instance: events of the running-task hand-shake (vocabulary of Model/KillSignal.lean)"""
    out = {}
    cur = {}
    n_inst = {}
    for rec in trace[i0:i1]:
        role, kind = rec[2], rec[3]
        if kind == 'start' and isinstance(rec[4], str) and rec[4].startswith('Worker-'):
            n_inst[rec[4]] = n_inst.get(rec[4], -1) + 1
            cur[rec[4]] = '%s#%d' % (rec[4], n_inst[rec[4]])
            out[cur[rec[4]]] = []
        elif kind == 'value.set' and isinstance(rec[4], str) and rec[4].startswith('running_task['):
            w = 'Worker-' + rec[4][13:-1]
            key = cur.get(w)
            if key is None:
                continue
            if role == w:
                if rec[5]:
                    out[key].append('n')
                elif out[key] and out[key][-1] == 'd':
                    pass        # the exception handler of _run_safely clears the flag again after the interruption: no model event
                else:
                    out[key] += ['r', 'c']
            elif rec[5] is False:
                out[key].append('k')
        elif kind == 'signal-delivered' and rec[5] == 10:
            key = cur.get(rec[4])
            if key is not None:
                out[key].append('d')
    return {k: v for k, v in out.items() if 'k' in v}


def extract_pflow(trace, sc, ops_obs):
    """how the parameters of each call reached the workers, in the vocabulary of Model/ParamFlow.lean: C:n:p (a map-family call with
    parameters p begins; p is the identity of what enters WorkerMapParams, computed from the scenario), D:k (chunk into worker k's
    queue), E (non-lethal pills), T:k:<kind> (worker k took a parameters pill / a chunk / a non-lethal pill), R:k (slot k restarted
    by the restart handler), X (lethal pills: the workers are stopped).  Returns the tokens."""
    pids = {}

    def pid_of(opi, op):
        key = (('g', op['func_group']) if op.get('func_group') is not None else
               ('fh', opi) if (sc.get('fresh_hooks') and sc.get('same_func') and (op.get('init') or op.get('exit'))) else
               opi if not (sc.get('same_func') and sc.get('func_kind') not in ('partial', 'partial_kw')) else 'same', bool(op.get('init')), bool(op.get('exit')), op.get('worker_lifespan'),
               bool(op.get('progress_bar')), op.get('task_timeout'), op.get('worker_init_timeout'), op.get('worker_exit_timeout'))
        return pids.setdefault(key, len(pids))
    starts = {}
    for opi, (op, oo) in enumerate(zip(sc['ops'], ops_obs)):
        if op['op'] in ('map', 'map_unordered', 'imap', 'imap_unordered') and 'trace_i0' in oo:
            starts[oo['trace_i0']] = 'C:%d:%d' % (sc['pool'].get('n_jobs', 2), pid_of(opi, op))
    toks = []
    stopped = True          # no workers yet
    in_batch = None         # 'E' / 'X': consecutive pills of one batch give one token
    skip_next_get = set()
    pending = None          # the call that has begun but has not touched the workers yet (a restart of the workers may come first)
    for pos, rec in enumerate(trace):
        if pos in starts:
            pending = starts[pos]
        role, kind = str(rec[2]), rec[3]
        if pending is not None and ((kind == 'q.put' and isinstance(rec[4], str) and rec[4].startswith('tq[') and not (isinstance(rec[5], str) and rec[5] in ('\x00', '\x01')))
                                    or (kind == 'start' and role == 'main' and isinstance(rec[4], str) and rec[4].startswith('Worker-'))):
            toks.append(pending)
            pending = None
            stopped = False
        if kind == 'q.put' and isinstance(rec[4], str) and rec[4].startswith('tq['):
            item = rec[5]
            if isinstance(item, str) and item == '\x00':
                if in_batch != 'X':
                    toks.append('X')
                in_batch, stopped = 'X', True
                continue
            if isinstance(item, str) and item == '\x01':
                if in_batch != 'E':
                    toks.append('E')
                in_batch = 'E'
                continue
            in_batch = None
            if isinstance(item, str) and item == '\x02':
                continue                # the parameters pill and …
            if isinstance(item, tuple) and not stopped:
                toks.append('D:%s' % rec[4][3:-1])
        elif kind == 'q.get' and isinstance(rec[4], str) and rec[4].startswith('tq[') and role.startswith('Worker-') and not stopped:
            k = rec[4][3:-1]
            item = rec[5]
            if (role, k) in skip_next_get:
                skip_next_get.discard((role, k))        # the parameters object that follows its pill
                continue
            if isinstance(item, str) and item == '\x02':
                toks.append('T:%s:P' % k)
                skip_next_get.add((role, k))
            elif isinstance(item, str) and item == '\x01':
                toks.append('T:%s:N' % k)
            elif isinstance(item, tuple):
                toks.append('T:%s:C' % k)
        elif kind == 'start' and role == 'restart_handler' and isinstance(rec[4], str) and rec[4].startswith('Worker-') and not stopped:
            toks.append('R:%s' % rec[4].split('-')[1])
    return toks


def extract_ffail(trace):
    """who reported a failing call and what the caller then fetched, in the vocabulary of Model/FirstFailure.lean: one record
    {'sigs': ['w:4', …], 'jobs': [4, …], 'ev': [token, …]} per period between two resets of the exception flag in which somebody wrote
    the job-id slot.  Job ids are shifted so that MAIN_PROCESS, INIT_FUNC, EXIT_FUNC are 0, 1, 2.  Tokens: L:i:b (party i looked at the
    flag and saw b), W:i (wrote the slot), F:i (raised the flag), Q:i (queued its failure), P:i / A:i (decided to store it itself /
    under every other job), H:i (the results handler took up i's queued failure), S:i:j (i's failure was written under job j), D:i:j (the
    attempt to write it there had no effect),
    MS / MR:j / MX:i (the caller saw the flag / read job id j / fetched the exception produced by i)."""
    def mj(j):
        return {-1: 0, -2: 1, -3: 2}.get(j, j + 3)

    def kind_of(role):
        if role.startswith('Worker-'):
            return 'w'
        if role == 'timeout_handler':
            return 't'
        if role == 'unexpected_death_handler':
            return 'd'
        return 'c'
    episodes = []

    def new():
        return {'sigs': [], 'jobs': set(), 'toks': [], 'last_look': {}, 'since_look': {}, 'cur': {}, 'stored': [], 'queued': {}, 'hand': None, 'main_look': None,
                'hgroup': None, 'hwho': None, 'trying': {}}
    ep = new()

    def fmt(tok):
        # a token is a string, or a tuple with holders {'i': party} that are filled in when the party becomes known
        if isinstance(tok, str):
            return tok
        parts = []
        for x in tok:
            if isinstance(x, dict):
                parts.append(str(x['i'] if x.get('i') is not None else 999))
            else:
                parts.append(str(x))
        return ':'.join(parts)

    def close(ep):
        if not ep['sigs']:
            return
        out = []
        for pos, _, tok in sorted(ep['toks'], key=lambda t: (t[0], t[1])):
            if isinstance(tok, tuple) and tok[0] == 'MX':
                # the party whose object (by identity) was stored last before the fetch
                who = None
                for p2, obj, holder in ep['stored']:
                    if obj == tok[1] and p2 <= pos:
                        who = holder
                tok = ('MX', who if who is not None else {'i': None})
            out.append(fmt(tok))
        episodes.append({'sigs': ['%s:%d' % (k, j) for k, j in ep['sigs']], 'jobs': sorted(ep['jobs']), 'ev': out})
    seq = 0
    for pos, rec in enumerate(trace):
        role, kind = str(rec[2]), rec[3]
        seq += 1

        def emit(tok, at=None):
            ep['toks'].append((pos if at is None else at, seq, tok))

        def store(holder, job, obj, at=None):
            ep['stored'].append((pos if at is None else at, obj, holder))
            emit(('S', holder, mj(job)), at=at)
            if job >= 0:
                ep['jobs'].add(mj(job))
        if kind == 'event.clear' and rec[4] == 'exception_thrown':
            close(ep)
            ep = new()
        elif kind == 'exc.look':
            ep['last_look'][role] = (pos, bool(rec[4]))
            ep['since_look'][role] = []
            if role == 'main' and rec[4]:
                ep['main_look'] = pos
        elif kind == 'value.set' and rec[4] == 'exception_job_id':
            k = kind_of(role)
            i = len(ep['sigs'])
            ep['sigs'].append((k, mj(rec[5])))
            g = {'i': i, 'kind': k, 'flagged': False, 'published': False, 'all': False, 'obj': None, 'holder': {'i': i}}
            ep['cur'][role] = g
            if k != 'c':
                lp, seen = ep['last_look'].get(role, (pos, False))
                emit('L:%d:%d' % (i, 1 if seen else 0), at=lp)
            if k == 'd':
                # what the death handler stored since its look belongs to this report
                pre = ep['since_look'].get(role, [])
                if pre:
                    g['published'] = True
                    pre[-1][3]['i'] = i
                    g['holder'] = pre[-1][3]
            emit('W:%d' % i)
        elif kind == 'event.set' and rec[4] == 'exception_thrown':
            g = ep['cur'].get(role)
            if g is not None and not g['flagged']:
                g['flagged'] = True
                emit('F:%d' % g['i'])
        elif kind == 'q.put' and rec[4] == 'rq' and role.startswith('Worker-'):
            g = ep['cur'].get(role)
            item = rec[5]
            try:
                failing = any((not r[1]) and not isinstance(r[2], str) for r in item[1])
            except Exception:
                failing = False
            if g is not None and g['flagged'] and failing and not g.get('queued'):
                g['queued'] = True
                ep['queued'].setdefault(item[0], []).append(g['i'])
                emit('Q:%d' % g['i'])
        elif kind == 'q.get' and rec[4] == 'rq' and role == 'results_handler':
            try:
                ep['hand'] = rec[5][0]
            except Exception:
                ep['hand'] = None
            ep['hgroup'] = None
            ep['hwho'] = None
        elif kind == 'exc.try':
            # an attempt to put a failure under a job id begins; whose failure it is
            job, obj = rec[4], rec[5]
            holder = None
            if role == 'results_handler':
                if ep['hgroup'] != obj:
                    ep['hgroup'] = obj
                    ep['hwho'] = None
                    lst = ep['queued'].get(ep['hand']) or []
                    if lst:
                        ep['hwho'] = {'i': lst.pop(0)}
                        emit('H:%d' % ep['hwho']['i'])
                holder = ep['hwho']
            else:
                g = ep['cur'].get(role)
                if g is not None and g['flagged']:
                    if g['kind'] == 'd':
                        if not g['all']:
                            g['all'] = True
                            emit('A:%d' % g['i'])
                        holder = g['holder']
                    elif not g['published']:
                        g['published'] = True
                        g['obj'] = obj
                        emit('P:%d' % g['i'])
                        holder = g['holder']
                    elif g['obj'] == obj:
                        holder = g['holder']
                elif kind_of(role) == 'd':
                    # before it writes the slot (if it does: in apply mode it only fails the job) the death handler stores its error
                    # (the last such store before the write is the one that belongs to the report)
                    pre = ep['since_look'].setdefault(role, [])
                    holder = {'i': None}
                    pre.append((pos, job, obj, holder))
                    emit(('P', holder))
            ep['trying'][role] = {'job': job, 'obj': obj, 'holder': holder, 'stored': False}
            if holder is not None and job >= 0:
                ep['jobs'].add(mj(job))
        elif kind == 'exc.set':
            # … the assignment a reader can see
            t = ep['trying'].get(role)
            if t is not None and t['holder'] is not None and t['obj'] == rec[5] and t['job'] == rec[4]:
                t['stored'] = True
                ep['stored'].append((pos, rec[5], t['holder']))
                emit(('S', t['holder'], mj(rec[4])))
        elif kind == 'exc.try-end':
            # … or it ended without one: it had no effect
            t = ep['trying'].pop(role, None)
            if t is not None and t['holder'] is not None and not t['stored']:
                emit(('D', t['holder'], mj(t['job'])))
        elif kind == 'value.get' and rec[4] == 'exception_job_id' and role == 'main':
            emit('MS', at=ep['main_look'] if ep['main_look'] is not None else pos)
            emit('MR:%d' % mj(rec[5]))
        elif kind == 'exc.fetch' and role == 'main':
            emit(('MX', rec[5]))
    close(ep)
    # tokens of parties that never became known (a death handler that only failed an apply job) say 999: they are dropped, together
    # with nothing else — the model then has no such party either
    for e in episodes:
        e['ev'] = [t for t in e['ev'] if not ((t.startswith('P:') or t.startswith('S:') or t.startswith('D:')) and t.split(':')[1] == '999')]
    return episodes


def extract_shutdown(trace):
    """what the forced shutdown and the stop of the restart handler did, in the vocabulary of Model/Shutdown.lean.
    Returns {'tw': [{'wid', 'running', 'leaves', 'acts'}, …] — one record per clean-up thread of terminate() —,
             'hstop': [[obs, …], …] — one sequence per restart handler thread}.
    `running` is the value the clean-up thread read from the running-task flag, `leaves` the number of its looks at the worker
    (is_alive after a bounded join) that found it alive before one found it gone — both are observations of the simulated
    process, not of what the pool then decided to do."""
    tw, cur_tw = [], {}
    hs, cur_h = [], None
    pend_join = {}
    closed, ready = set(), set()
    for rec in trace:
        role, kind = str(rec[2]), rec[3]
        # ---- Part A
        if kind == 'start' and isinstance(rec[4], str) and rec[4].startswith('Worker-'):
            closed.add(rec[4])             # no pid yet …
        if kind == 'proc.ready':
            closed.discard(rec[4])         # … until start() has returned
            ready.add(rec[4])
        if kind == 'proc.close':
            closed.add(rec[4])
        if kind == 'start' and isinstance(rec[4], str) and rec[4].startswith('terminate_worker['):
            wid = int(rec[4][17:rec[4].index(']')])
            # `usable`: there is a process object the clean-up thread can work with (the graceful path has not closed it already)
            r = {'wid': wid, 'running': None, 'looks': [], 'acts': [], 'open': True, 'i0': rec[0], 'i1': None, 'usable': ('Worker-%d' % wid) in ready and ('Worker-%d' % wid) not in closed}
            cur_tw[rec[4]] = r
            tw.append(r)
        elif kind == 'thread-end' and role.startswith('terminate_worker['):
            if role in cur_tw:
                cur_tw[role]['i1'] = rec[0]
                cur_tw.pop(role)['open'] = False
        elif role.startswith('terminate_worker[') and role in cur_tw:
            r = cur_tw[role]
            if kind == 'value.get' and str(rec[4]).startswith('running_task['):
                r['running'] = bool(rec[5])
            elif kind in ('os.kill', 'os.kill-miss') and rec[5] == 10:
                r['acts'].append('U')
            elif kind == 'x.join':
                if rec[5]:
                    pend_join[role] = True              # bounded join: the look that follows decides
                else:
                    r['acts'].append('F')
            elif kind == 'x.is_alive':
                if pend_join.pop(role, False):
                    r['acts'].append('J0' if rec[5] else 'J1')
                    r['looks'].append(bool(rec[5]))
                else:
                    r['looks'].append(bool(rec[5]))     # the look after the last round
            elif kind == 'drain':
                r['acts'].append('D')
            elif kind == 'proc.terminate':
                r['acts'].append('T')
            elif kind == 'proc.close':
                r['acts'].append('C')
        # ---- Part C
        if kind == 'start' and rec[4] == 'restart_handler':
            cur_h = []
            hs.append(cur_h)
        if cur_h is None:
            continue
        if kind == 'event.set' and rec[4] == 'hstop':
            # an interrupted stop that starts over (KeyboardInterrupt inside _stop_handler_threads → terminate() → again) sets the
            # flag a second time: no change of state, and the stopper's visible behaviour from `probe` is that of
            # `joinShort → probeLoop`; only the first one is an event of the model
            if 'F' not in cur_h:
                cur_h.append('F')
        elif kind == 'event.set' and rec[4] == 'exception_thrown':
            cur_h.append('!')
        elif kind == 'cond.wait' and role == 'restart_handler':
            cur_h.append('W')
        elif kind == 'cond.woken' and role == 'restart_handler':
            cur_h.append('K')
        elif kind == 'start' and role == 'restart_handler':
            cur_h.append('S')
        elif kind == 'thread-end' and role == 'restart_handler':
            cur_h.append('E')
        elif kind == 'cond.notify':
            cur_h.append(('P' if role.startswith('Worker-') else 'N') + ('1' if rec[5] else '0'))
        elif kind == 'array.set' and rec[4] == 'restart_array' and rec[6] and role.startswith('Worker-'):
            cur_h.append('R')
        elif kind == 'x.is_alive' and rec[4] == 'restart_handler' and not rec[5] and 'E' in cur_h and 'X' not in cur_h and 'F' in cur_h:
            cur_h.append('X')
    for r in tw:
        # two terminate() calls at once (e.g. the caller and a handler thread): both clean up the same process object and see each
        # other's close(); outside the single-caller model
        r['concurrent'] = any(o is not r and o['wid'] == r['wid'] and o['i0'] <= (r['i1'] if r['i1'] is not None else 10 ** 12) and
                              r['i0'] <= (o['i1'] if o['i1'] is not None else 10 ** 12) for o in tw)
    for r in tw:
        looks = r.pop('looks')
        r['leaves'] = looks.index(False) if False in looks else None
        r['acts'] = ','.join(r['acts'])
    return {'tw': tw, 'hstop': [','.join(h) for h in hs]}


def extract_aproto(trace):
    """events of a pool used through apply only (vocabulary of Model/ApplyProto.lean), from the whole trace.
    Returns (events, submits) where submits lists the job ids in submission order.
    Two normalisations (the model's `timeoutProc` and `handle` are atomic):
      * the timeout scan sends the kill signal and THEN sets the job: when the signal interrupts the function (the worker
        never reports that job) the model event is placed at the signal; otherwise it is a `timeoutOnly` at the set;
      * the results handler takes a result off the queue and THEN sets the job: the model event is placed at the set; when
        the job was settled in between (by the timeout scan) the handler finds it gone and sets nothing — the model event
        is then placed right after that other set."""
    def is_task(item):
        return isinstance(item, (tuple, list)) and len(item) == 2 and isinstance(item[0], int) and not isinstance(item[0], bool) \
            and item[0] >= 1 and isinstance(item[1], (tuple, list)) and len(item[1]) == 2 and callable(item[1][0])
    evs, submits = [], []
    hand, settled, popped, interrupted = {}, set(), [], set()
    reports = []        # (position, job): a worker puts the result of that job on the results queue
    for i, rec in enumerate(trace):
        if rec[3] == 'q.put' and rec[4] == 'rq' and str(rec[2]).startswith('Worker-'):
            try:
                for (job, success, _r) in rec[5][1]:
                    if isinstance(job, int) and job >= 1:
                        reports.append((i, job))
            except Exception:
                pass
    in_rq = []
    rh_sets = [(i, rec[4]) for i, rec in enumerate(trace) if rec[3] == 'settle' and str(rec[2]) == 'results_handler']
    for i, rec in enumerate(trace):
        role, kind = str(rec[2]), rec[3]
        if kind == 'q.put' and isinstance(rec[4], str) and rec[4].startswith('tq[') and role == 'main' and is_task(rec[5]):
            k = int(rec[4][3:-1])
            evs.append('s:%d:%d' % (rec[5][0], k))
            submits.append(rec[5][0])
        elif kind == 'q.get' and isinstance(rec[4], str) and rec[4].startswith('tq[') and role.startswith('Worker-') and is_task(rec[5]):
            k = int(rec[4][3:-1])
            evs.append('t:%d' % k)
            hand[k] = rec[5][0]
        elif kind == 'q.put' and rec[4] == 'rq' and role.startswith('Worker-'):
            try:
                items = rec[5][1]
            except Exception:
                continue
            for (job, success, _r) in items:
                if isinstance(job, int) and job >= 1:
                    k = int(role.split('-')[1])
                    evs.append('f:%d:%d' % (k, 1 if success else 0))
                    hand.pop(k, None)
                    in_rq.append(job)
        elif kind == 'q.get' and rec[4] == 'rq' and role == 'results_handler':
            try:
                items = rec[5][1]
            except Exception:
                continue
            for (job, success, _r) in items:
                if isinstance(job, int) and job >= 1:
                    if job in settled and not any(j == job and pos > i for pos, j in rh_sets):
                        evs.append('h')         # the handler finds the job gone and sets nothing: dropped
                        if job in in_rq:
                            in_rq.remove(job)
                    else:
                        popped.append(job)
        elif kind == 'os.kill' and role == 'timeout_handler' and rec[5] == 10 and str(rec[4]).startswith('Worker-'):
            k = int(str(rec[4]).split('-')[1])
            job = hand.get(k)
            if job is not None and job not in settled and not any(j == job and pos > i for pos, j in reports):
                evs.append('p:%d' % k)
                hand.pop(k, None)
                interrupted.add(job)
                settled.add(job)
        elif kind == 'settle' and isinstance(rec[4], int) and rec[4] >= 1:
            job = rec[4]
            if role == 'results_handler':
                evs.append('h')
                if job in popped:
                    popped.remove(job)
                if job in in_rq:
                    in_rq.remove(job)
            elif role == 'timeout_handler':
                if job in interrupted or job in settled:
                    continue
                evs.append('o:%d' % job)
                if job in popped and not any(j == job and pos > i for pos, j in rh_sets):
                    # the results handler holds this result and will find the job gone
                    popped.remove(job)
                    evs.append('h')
                    if job in in_rq:
                        in_rq.remove(job)
            elif role == 'unexpected_death_handler':
                holder = [k for k, j in hand.items() if j == job]
                if holder:
                    evs.append('d:%d' % holder[0])
                    hand.pop(holder[0], None)
                else:
                    evs.append('x:%d' % job)      # outside the model (the dead worker did not hold the job it is blamed for)
            settled.add(job)
    return evs, submits


def extract_disp(trace, i0, i1, op):
    """dispatcher events (vocabulary of Model/Dispatch.lean) of one (i)map_unordered operation"""
    evs = []
    in_draw = False
    lazy = op['op'] in ('map_unordered', 'map')     # list(generator): the consumer asks again immediately
    if lazy:
        evs.append('a')
    last_s = -1
    for rec in trace[i0:i1]:
        role, kind = rec[2], rec[3]
        if kind == 'draw' and role == 'main':
            if not in_draw:
                evs.append('d')
                in_draw = True
            continue
        if role == 'main' and kind in ('q.put', 'iter.next', 'ask'):
            in_draw = False
        if kind == 'ask':
            evs.append('a')
        elif kind == 'q.put' and isinstance(rec[4], str) and rec[4].startswith('tq[') and role == 'main':
            item = rec[5]
            if isinstance(item, tuple) and len(item) == 2 and isinstance(item[0], int) and item[0] >= 0 and isinstance(item[1], tuple):
                evs.append('s')
                last_s = len(evs)
        elif kind == 'q.get' and rec[4] == 'rq':
            w, results = rec[5]
            if w is not None:
                evs.extend('c' for r in results if r[0] is not None and r[0] >= 0 and r[1] is True)
        elif kind == 'iter.next':
            evs.append('y')
            if lazy:
                evs.append('a')
    # the chunk iterator is exhausted some time after the last submission (not visible in the trace): lazy marker
    if 'd' not in evs[last_s:] if last_s >= 0 else True:
        evs.insert(last_s if last_s >= 0 else len(evs), 'E')
    return evs


def _j(x):
    if isinstance(x, (int, float, str, bool)) or x is None:
        return x
    if isinstance(x, (list, tuple)):
        return [_j(y) for y in x]
    return repr(x)[:80]


def _run(sc, S, obs):
    from mpire import WorkerPool
    pc = dict(sc.get('pool', {}))
    shared = pc.pop('shared_objects', False)
    # 'falsy': an object that is enabled (not None) but falsy — a list the workers are meant to see
    FALSY = FalsyShared()
    shared_obj = FALSY if shared == 'falsy' else {'shared': 42} if shared else None
    calls = obs['calls'] = []       # (op, fkind, role, token, wid_seen, idx, t_enter, t_exit, ok_convention, state_ok, shared_ok, op at call time,
    #                                  how many calls the state object has seen including this one)
    excs_raised = obs['raised'] = []
    # injections
    for inj in sc.get('inject', []):
        S.point_hooks.append(_make_injection(inj, obs))
    for rule in sc.get('rules', []):
        S.rules.append(_make_rule(rule))
    if sc.get('sigint_disposition') == 'ign':
        S.mainproc.handlers[sim.SIGINT] = sim.SIG_IGN      # the caller ignores SIGINT (a background job, nohup, …)
    elif sc.get('sigint_disposition') == 'dfl':
        S.mainproc.handlers[sim.SIGINT] = sim.SIG_DFL      # the caller has the OS default action installed
    elif sc.get('sigint_disposition') == 'custom':
        S.mainproc.handlers[sim.SIGINT] = _custom_sigint_handler
    pool = WorkerPool(pc.pop('n_jobs', 2), shared_objects=shared_obj, **pc)
    try:
        if isinstance(pool._cache, dict) and type(pool._cache) is dict:
            pool._cache = YieldingDict(pool._cache)
    except Exception:  # noqa: the cache is a private attribute; without it only this refinement is lost
        pass
    obs['sigint_handler_before'] = repr(S.mainproc.handlers.get(sim.SIGINT))
    import mpire.tqdm_utils as tu
    std_tqdm = tu.get_tqdm(None)
    lock_before = std_tqdm.get_lock()
    state_tokens = {}

    def extras_check(args, cfg):
        """strip the extra arguments; returns (wid_seen, shared_ok, state, rest)"""
        a = list(args)
        wid = None
        shared_ok = True
        state = None
        if cfg['pass_worker_id']:
            wid = a.pop(0)
        if cfg['shared']:
            so = a.pop(0)
            shared_ok = (isinstance(so, dict) and so.get('shared') == 42) or isinstance(so, FalsyShared)
        if cfg['use_worker_state']:
            state = a.pop(0)
        return wid, shared_ok, state, a

    stable = {}
    now_op = [0]        # index of the operation being executed right now (for attributing deferred hooks)

    def mk_funcs(op, opi):
        """user functions of operation opi.  With sc['same_func'] the SAME function objects serve every operation
        (so that consecutive calls on a keep-alive pool compare equal) and read the current operation from `cur`."""
        if sc.get('func_kind') in ('partial', 'partial_kw'):
            # every call passes functools.partial objects of the SAME three underlying functions, bound to the call they belong to:
            # different calls' functions are different (they carry different bound arguments) although they wrap the same function
            import functools
            cur.update(op=op, opi=opi)
            if 'pf' not in stable:
                t0, i0, e0 = _mk_funcs(None, None)

                def bind(f):
                    def base(tag, *a, **k):
                        prev = getattr(S.cur, 'bound_op', None)
                        S.cur.bound_op = tag
                        try:
                            return f(*a, **k)
                        finally:
                            S.cur.bound_op = prev
                    return base
                def bind_kw(f):
                    def base_kw(*a, tag=None, **k):
                        prev = getattr(S.cur, 'bound_op', None)
                        S.cur.bound_op = tag
                        try:
                            return f(*a, **k)
                        finally:
                            S.cur.bound_op = prev
                    return base_kw
                stable['pf'] = (bind(t0), i0, e0, bind_kw(t0))
            # (the hooks are the same plain functions for every call: only the task function is a per-call partial)
            if sc.get('func_kind') == 'partial_kw':
                # the calls' partials differ in a KEYWORD argument only
                return functools.partial(stable['pf'][3], tag=opi), stable['pf'][1], stable['pf'][2]
            return functools.partial(stable['pf'][0], opi), stable['pf'][1], stable['pf'][2]
        if op.get('func_group') is not None:
            # operations of one group share their function objects (the others have their own)
            cur.update(op=op, opi=opi)
            gk = ('g', op['func_group'])
            if gk not in stable:
                stable[gk] = _mk_funcs(None, None, group=op['func_group'])
            return stable[gk]
        if sc.get('same_func'):
            cur.update(op=op, opi=opi)
            if 'f' not in stable:
                stable['f'] = _mk_funcs(None, None)
            if sc.get('fresh_hooks') and (op.get('init') or op.get('exit')):
                # the same task function for every call, but hooks that are new objects with every call (same code, same qualified
                # name - as closures, lambdas or bound methods of a temporary object are)
                own = _mk_funcs(op, opi)
                return stable['f'][0], own[1], own[2]
            return stable['f']
        return _mk_funcs(op, opi)

    cur = {}

    def _mk_funcs(op_fixed, opi_fixed, group=None):
        def ctx():
            op = op_fixed if op_fixed is not None else cur['op']
            opi = opi_fixed if opi_fixed is not None else cur['opi']
            tag = getattr(S.cur, 'bound_op', None)
            if op_fixed is None and tag is not None:
                op, opi = sc['ops'][tag], tag
            cfg = S.inst_cfg.get(S.threads.index(S.cur)) or \
                {'pass_worker_id': pool.pool_params.pass_worker_id, 'shared': pool.pool_params.shared_objects is not None,
                 'use_worker_state': pool.pool_params.use_worker_state}
            return op, opi, cfg, op.get('elem', 'scalar'), op.get('fail') or {}, op.get('input') == 'nd'

        def token():
            st = S.cur
            return S.threads.index(st)

        def state_check(state, tok):
            if state is None:
                return True
            if not isinstance(state, dict):
                return False
            owner = state.setdefault('__owner', tok)
            state['__n'] = state.get('__n', 0) + 1
            return owner == tok

        def task(*args, **kwargs):
            op, opi, cfg, ekind, fail, numpy_in = ctx()
            wid, shared_ok, state, rest = extras_check(args, cfg)
            t0 = S.now - S.t0
            if numpy_in:
                import numpy as _np
                arr = rest[0]
                idx = int(_np.asarray(arr).ravel()[0])       # (2-D input: first column of the first row; 1-D input: first element)
                conv = len(rest) == 1
            else:
                idx, conv = idx_of_call(ekind, rest, kwargs)
            tok = token()
            rec = [opi, 'task', S.cur.role, tok, wid, idx, round(t0, 6), None, conv, state_check(state, tok), shared_ok, now_op[0], (state.get('__n') if isinstance(state, dict) else None), group]
            calls.append(rec)
            S.rec('user', 'task', idx)
            S.cur.in_user = 1
            try:
                d = dur_of(op.get('dur'), idx if idx is not None else 0)
                stubborn = (op.get('stubborn') or {}).get(str(idx))
                if stubborn:
                    # a task that cannot be interrupted for a while (a retry loop with a bare except, a long C call):
                    # whatever is raised into it is swallowed until its time is up
                    t_end = S.now + float(stubborn)
                    while S.now < t_end:
                        try:
                            sim.time_shim.sleep(t_end - S.now)
                        except (sim.Stuck, sim.SimAbort):
                            raise
                        except BaseException:  # noqa
                            pass
                elif d:
                    sim.time_shim.sleep(d)
                else:
                    S.yield_point('user-body')
            finally:
                S.cur.in_user = 0
            if idx in fail.get('at', ()):  # raise in this task
                e = _mk_exc(fail.get('exc', 'ValueError'), idx, opi)
                excs_raised.append(dict(exc_info(e), opi=opi))
                raise e
            rec[7] = round(S.now - S.t0, 6)
            if numpy_in:
                return arr * 3 + 1
            return ret_of(op, idx)

        def init(*args):
            op, opi, cfg, ekind, fail, numpy_in = ctx()
            wid, shared_ok, state, rest = extras_check(args, cfg)
            tok = token()
            rec = [opi, 'init', S.cur.role, tok, wid, None, round(S.now - S.t0, 6), None, len(rest) == 0, state_check(state, tok), shared_ok, now_op[0], (state.get('__n') if isinstance(state, dict) else None), group]
            calls.append(rec)
            S.rec('user', 'init', None)
            d = dur_of(op.get('init_dur'), int(S.cur.role.split('-')[-1]) if '-' in S.cur.role else 0)
            if d:
                S.cur.in_hook = 'init'
                try:
                    sim.time_shim.sleep(d)
                finally:
                    S.cur.in_hook = None
            if fail.get('init') is not None and (fail['init'] == 'all' or fail['init'] == S.cur.role):
                e = _mk_exc(fail.get('exc', 'ValueError'), -2, now_op[0])
                excs_raised.append(dict(exc_info(e), opi=now_op[0]))
                raise e
            rec[7] = round(S.now - S.t0, 6)

        def exit_(*args):
            op, opi, cfg, ekind, fail, numpy_in = ctx()
            wid, shared_ok, state, rest = extras_check(args, cfg)
            tok = token()
            rec = [opi, 'exit', S.cur.role, tok, wid, None, round(S.now - S.t0, 6), None, len(rest) == 0, state_check(state, tok), shared_ok, now_op[0], (state.get('__n') if isinstance(state, dict) else None), group]
            calls.append(rec)
            S.rec('user', 'exit', None)
            d = dur_of(op.get('exit_dur'), int(S.cur.role.split('-')[-1]) if '-' in S.cur.role else 0)
            if d:
                S.cur.in_hook = 'exit'
                try:
                    sim.time_shim.sleep(d)
                finally:
                    S.cur.in_hook = None
            if fail.get('exit') is not None and (fail['exit'] == 'all' or fail['exit'] == S.cur.role):
                e = _mk_exc(fail.get('exc', 'ValueError'), -3, now_op[0])
                excs_raised.append(dict(exc_info(e), opi=now_op[0]))
                raise e
            rec[7] = round(S.now - S.t0, 6)
            n_here = sum(1 for c in calls if c[1] == 'task' and c[3] == tok and c[7] is not None)
            if op.get('exit_none') == 'all' or (op.get('exit_none') == 'even' and isinstance(tok, int) and tok % 2 == 0):
                return None             # a clean-up-only worker_exit: None is the value it returned
            return ['exit', tok, n_here]

        return task, init, exit_

    other = {}          # a second, independent pool of the same process (op 'other_pool')
    has_other = any(op['op'] == 'other_pool' for op in sc['ops'])
    try:
        for opi, op in enumerate(sc['ops']):
            o = {'op': op['op'], 't0': round(S.now - S.t0, 6), 'trace_i0': len(S.trace)}
            obs['ops'].append(o)
            kind = op['op']
            now_op[0] = opi
            if sc.get('same_func') and kind not in ('map', 'map_unordered', 'imap', 'imap_unordered', 'apply_batch'):
                cur['opi'] = opi        # user functions running during this operation (e.g. deferred worker_exit) belong to it
            try:
                if kind in ('map', 'map_unordered', 'imap', 'imap_unordered'):
                    _do_map(pool, op, opi, o, mk_funcs, S, obs)
                elif kind == 'apply_batch':
                    _do_apply(pool, op, opi, o, mk_funcs, S, obs)
                elif kind == 'apply_collect':
                    op0, o0, results0 = obs.get('_pending_apply', {}).pop(op['of'])
                    _collect_apply(pool, op0, o0, results0)
                    o['outcome'] = 'ok'
                elif kind == 'set':
                    what, val = op['what'], op['value']
                    if what == 'shared_objects':
                        pool.set_shared_objects(FalsyShared() if val == 'falsy' else {'shared': 42} if val else None)
                    else:
                        {'pass_worker_id': pool.pass_on_worker_id, 'use_worker_state': pool.set_use_worker_state,
                         'keep_alive': pool.set_keep_alive, 'order_tasks': pool.set_order_tasks}[what](val)
                    o['outcome'] = 'ok'
                elif kind == 'stop_and_join':
                    pool.stop_and_join(**({'keep_alive': op['keep_alive']} if 'keep_alive' in op else {}))
                    o['outcome'] = 'ok'
                elif kind == 'terminate':
                    pool.terminate()
                    o['outcome'] = 'ok'
                elif kind == 'sleep':
                    sim.time_shim.sleep(op['d'])
                    o['outcome'] = 'ok'
                elif kind == 'other_pool':
                    _do_other_pool(op, o, other, S)
                elif kind == 'resume':
                    # the consumer comes back to a lazy call it had left open and takes the rest
                    it0, gen0, o0, got0 = obs.get('_open_by_op', {}).pop(op['of'])
                    for v in it0:
                        got0.append(v)
                    o0['result'] = _res_json(got0)
                    o0['resumed'] = True
                    if gen0 in obs.get('_open_gens', []):
                        obs['_open_gens'].remove(gen0)
                    o['outcome'] = 'ok'
                elif kind == 'kill_idle':
                    w = pool._workers[op['victim']]
                    sim.sim_kill(w.pid, sim.SIGKILL)
                    o['outcome'] = 'ok'
                else:
                    raise AssertionError(kind)
            except (sim.Stuck, sim.SimAbort):
                raise
            except KeyboardInterrupt as e:
                o['outcome'] = 'raise'
                o['exc'] = exc_info(e)
            except BaseException as e:  # noqa
                o['outcome'] = 'raise'
                o['exc'] = exc_info(e)
            o['t1'] = round(S.now - S.t0, 6)
            o['trace_i1'] = len(S.trace)
            o['main_points_end'] = S.threads[0].points
            if kind in ('map', 'map_unordered', 'imap', 'imap_unordered') and not op.get('ret') and not has_other:
                # (with op['ret'] results are not invertible to task indices: no protocol trace for such a call; with a second pool
                # at work the trace holds the events of both)
                evs, failed = extract_proto(S.trace, o['trace_i0'], o['trace_i1'], op)
                if failed or o.get('outcome') != 'ok' or op.get('consume', 'all') != 'all':
                    # after a failure / an abandoned lazy call: every instance drops what it holds, queues are drained
                    evs = evs + ([] if failed else ['F']) + ['a:%d' % w for w in range(pool.pool_params.n_jobs)] + ['D']
                o['proto'] = evs
                kk = extract_kill(S.trace, o['trace_i0'], o['trace_i1'])
                if kk:
                    o['kill'] = kk
                if kind in ('imap_unordered', 'map_unordered') and o.get('outcome') == 'ok' and op.get('consume', 'all') == 'all' \
                        and op.get('input', 'list') in ('list', 'gen'):
                    o['disp'] = extract_disp(S.trace, o['trace_i0'], o['trace_i1'], op)
            o['exit_results'] = _j(pool.get_exit_results()) if op.get('exit') or op.get('want_exit_results') else None
            try:
                o['insights'] = pool.get_insights() if pool.pool_params.enable_insights else None
            except Exception as e:  # noqa
                o['insights'] = {'error': repr(e)}
            o['control'] = control_snapshot(pool)
            o['alive_after'] = sorted(t.role for t in S.threads[1:] if t.started and not t.done)
            if kind in ('terminate', 'stop_and_join') and o['alive_after'] and o.get('outcome') == 'ok':
                # a helper that is about to end by itself is not a leak: what is still there after 2 virtual seconds is
                try:
                    sim.time_shim.sleep(2.0)
                except (sim.Stuck, sim.SimAbort):
                    raise
                except BaseException:  # noqa
                    pass
                o['alive_after'] = sorted(t.role for t in S.threads[1:] if t.started and not t.done)
            o['instances_alive'] = [i for i, t in enumerate(S.threads) if t.role.startswith('Worker-') and t.started and not t.done]
    finally:
        t_exit0 = S.now
        if other.get('pool') is not None:
            try:
                S.role_prefix = 'B:'
                if other.get('gen') is not None:
                    other['gen'].close()
                other['pool'].__exit__(None, None, None)
            except (sim.Stuck, sim.SimAbort):
                raise
            except BaseException as e:  # noqa
                obs['other_pool_exit'] = repr(e)[:200]
            finally:
                S.role_prefix = ''
        try:
            pool.__exit__(None, None, None)
            obs['exit_outcome'] = 'ok'
        except (sim.Stuck, sim.SimAbort):
            raise
        except BaseException as e:  # noqa
            obs['exit_outcome'] = 'raise ' + repr(e)[:200]
        obs['exit_virtual_s'] = round(S.now - t_exit0, 4)
        try:
            if pool.pool_params.enable_insights:
                obs['insights_after_exit'] = pool.get_insights()        # what the pool reports once the with-block has been left
        except (sim.Stuck, sim.SimAbort):
            raise
        except BaseException as e:  # noqa
            obs['insights_after_exit'] = {'error': repr(e)[:200]}
        if obs.get('_open_gens'):
            # the with-block has been left while the caller still holds a lazy call's generator: nothing of the pool runs any more
            try:
                if any(t.started and not t.done for t in S.threads[1:]):
                    sim.time_shim.sleep(2.0)
            except (sim.Stuck, sim.SimAbort):
                raise
            except BaseException:  # noqa
                pass
            obs['alive_at_exit_with_open_generator'] = sorted(t.role for t in S.threads[1:] if t.started and not t.done)
        # lazy calls that were left open: the caller drops the generators now (their finally clauses run)
        for g in obs.pop('_open_gens', []):
            try:
                g.close()
            except (sim.Stuck, sim.SimAbort):
                raise
            except BaseException as e:  # noqa
                obs.setdefault('gen_close_errors', []).append(repr(e)[:200])
        # grace period: a helper that is about to end by itself is not a leak; one that is still there after 2 virtual seconds is
        try:
            if any(t.started and not t.done for t in S.threads[1:]):
                sim.time_shim.sleep(2.0)
        except (sim.Stuck, sim.SimAbort):
            raise
        except BaseException:  # noqa
            pass
        obs['alive_at_exit'] = sorted(t.role for t in S.threads[1:] if t.started and not t.done)
        obs['sigint_handler_after'] = repr(S.mainproc.handlers.get(sim.SIGINT))
        obs['tqdm_lock_same'] = std_tqdm.get_lock() is lock_before
        obs['procs_alive'] = sorted(p.name for p in S.procs.values() if p is not S.mainproc and not p.killed and p.main_st is not None and not p.main_st.done)


def _custom_sigint_handler(signum, frame):
    raise KeyboardInterrupt


def _other_task(x):
    sim.time_shim.sleep(0.01 + (x % 3) * 0.01)
    return x * 7 + 1


def _do_other_pool(op, o, other, S):
    """a second WorkerPool of the same process, used through a lazy call that is consumed bit by bit in between the operations
    of the pool under test: {'do': 'open', n_jobs, n, kind, lifespan} / {'do': 'take', 'k'} / {'do': 'finish'}.  Its results
    must be right as well, and it must not be disturbed by what happens to the other pool."""
    from mpire import WorkerPool
    S.role_prefix = 'B:'
    try:
        if op['do'] == 'open':
            other['pool'] = WorkerPool(op.get('n_jobs', 4), start_method=op.get('start_method', 'fork'))
            other['kind'] = op.get('kind', 'imap_unordered')
            other['n'] = op.get('n', 20)
            other['got'] = []
            kw = {'chunk_size': 1}
            if op.get('lifespan'):
                kw['worker_lifespan'] = op['lifespan']
            other['gen'] = getattr(other['pool'], other['kind'])(_other_task, range(other['n']), **kw)
            other['it'] = iter(other['gen'])
        elif op['do'] == 'take':
            for _ in range(op.get('k', 1)):
                try:
                    other['got'].append(next(other['it']))
                except StopIteration:
                    break
        elif op['do'] == 'finish':
            other['got'] += list(other['it'])
            other['gen'] = None
            want = [x * 7 + 1 for x in range(other['n'])]
            if (other['got'] if other['kind'] == 'imap' else sorted(other['got'])) != want:
                o['other_wrong'] = {'got': other['got'][:30], 'expected': want[:30]}
        o['outcome'] = 'ok'
        o['other_got'] = len(other.get('got', []))
    finally:
        S.role_prefix = ''


def _make_input(op, log):
    import numpy as np
    n = op['n']
    kind = op.get('input', 'list')
    ek = op.get('elem', 'scalar')
    if kind == 'list':
        return LoggedList([elem_of(ek, i) for i in range(n)], log)
    if kind == 'range':
        return range(n)
    if kind == 'sized':
        # has a length and can be iterated, but is no sequence (like a set, a dict or one of its views)
        class SizedBag:
            def __init__(self, items):
                self._items = items

            def __len__(self):
                return len(self._items)

            def __iter__(self):
                return iter(self._items)
        return SizedBag([elem_of(ek, i) for i in range(n)])
    if kind == 'gen':
        # (`gen_endless`: the input never ends by itself — the call is bounded by `iterable_len` alone)
        return logged_gen(10 ** 9 if op.get('gen_endless') else n, ek, log, op.get('gen_pause', 0.0), op.get('gen_tail', 0.0), op.get('input_raises_at'))
    if kind == 'nd':
        if op.get('nd_dims') == 1:
            return np.arange(n)                  # a one-dimensional array: the chunks are 1-D slices
        return np.arange(n * 2).reshape(n, 2) * 1.0 + 0.0 if False else np.stack([np.arange(n), np.arange(n) * 2], axis=1)
    raise AssertionError(kind)


def _map_kwargs(op, init, exit_):
    kw = {}
    for k in ('iterable_len', 'max_tasks_active', 'chunk_size', 'n_splits', 'worker_lifespan', 'task_timeout',
              'worker_init_timeout', 'worker_exit_timeout'):
        if op.get(k) is not None:
            kw[k] = op[k]
    if op.get('progress_bar'):
        kw['progress_bar'] = True
    if op.get('init'):
        kw['worker_init'] = init
    if op.get('exit'):
        kw['worker_exit'] = exit_
    return kw


def _do_map(pool, op, opi, o, mk_funcs, S, obs):
    task, init, exit_ = mk_funcs(op, opi)
    io_ev = o['io'] = []      # ('d', k, t) element k drawn | ('y', value, t) value handed to the consumer | ('p0'|'p1', t) consumer pause
    data = _make_input(op, io_ev)
    kw = _map_kwargs(op, init, exit_)
    bar_out = None
    if op.get('progress_bar'):
        bar_out = io.StringIO()
        kw['progress_bar_options'] = {'file': bar_out, 'bar_format': '<{n_fmt}/{total_fmt}>', 'mininterval': 0, 'miniters': 1}
    kind = op['op']
    meth = getattr(pool, kind)
    if op.get('bad_arg'):
        # an argument the validation rejects
        if op['bad_arg'] == 'bar_option':
            kw['progress_bar_options'] = {'no_such_tqdm_option': 1}      # checked also when no bar is asked for; not a TypeError / ValueError
        else:
            kw[op['bad_arg']] = 'x'
    if kind == 'map' and op.get('input') == 'nd' and 'concatenate_numpy_output' in op:
        kw['concatenate_numpy_output'] = op['concatenate_numpy_output']
    try:
        if kind in ('map', 'map_unordered'):
            res = meth(task, data, **kw)
            o['outcome'] = 'ok'
            o['result'] = _res_json(res)
        else:
            gen = meth(task, data, **kw)
            consume = op.get('consume', 'all')
            pause = op.get('consume_pause')
            got = []
            k = 0
            it = iter(gen)
            # (consume == 0: the generator object is created and left alone — a lazy call that has not been started)
            while consume == 'all' or consume > 0:
                S.rec('ask')
                try:
                    v = next(it)
                except StopIteration:
                    break
                got.append(v)
                io_ev.append(('y', _res_json(v), round(S.now - S.t0, 6)))
                S.rec('yield', _j(v))
                k += 1
                if consume != 'all' and k >= consume:
                    break
                if pause:
                    io_ev.append(('p0', None, round(S.now - S.t0, 6)))
                    sim.time_shim.sleep(dur_of(pause, k))
                    io_ev.append(('p1', None, round(S.now - S.t0, 6)))
            if consume != 'all':
                if op.get('abandon') == 'close':
                    if op.get('pause_before_close'):
                        sim.time_shim.sleep(op['pause_before_close'])      # things go on in the background while the consumer is away
                    gen.close()
                    o['closed'] = True
                else:
                    o['abandoned'] = True
                    obs.setdefault('_open_gens', []).append(gen)
                    obs.setdefault('_open_by_op', {})[opi] = (it, gen, o, got)
            o['outcome'] = 'ok'
            o['result'] = _res_json(got)
    finally:
        if bar_out is not None:
            o['bar'] = re.findall(r'<(\d+)/(\d+|\?)>', bar_out.getvalue())


def _res_json(res):
    try:
        import numpy as np
        if isinstance(res, np.ndarray):
            return {'nd': res.tolist()}
    except Exception:
        pass
    if isinstance(res, (list, tuple)):
        return [_res_json(x) for x in res]
    if isinstance(res, (int, float, str, bool)) or res is None:
        return res
    return repr(res)[:100]


def _do_apply(pool, op, opi, o, mk_funcs, S, obs):
    """a batch of apply_async submissions followed by waits in a given order"""
    task, init, exit_ = mk_funcs(dict(op, elem='scalar' if op.get('bare_args') else 'tuple'), opi)
    cb_log = o['callbacks'] = []
    results = []
    kw = {}
    for k in ('task_timeout', 'worker_init_timeout', 'worker_exit_timeout'):
        if op.get(k) is not None:
            kw[k] = op[k]
    if op.get('init'):
        kw['worker_init'] = init
    if op.get('exit'):
        kw['worker_exit'] = exit_
    for j, t in enumerate(op['tasks']):
        i = t['idx']

        def cb(v, i=i):
            cb_log.append(('cb', i, _j(v), round(S.now - S.t0, 6)))
            if op.get('cb_dur'):
                sim.time_shim.sleep(op['cb_dur'])

        def ecb(e, i=i):
            cb_log.append(('ecb', i, type(e).__name__, round(S.now - S.t0, 6)))
            if op.get('cb_dur'):
                sim.time_shim.sleep(op['cb_dur'])
        if op.get('bare_args'):
            # a bare (non-tuple) value as args — including falsy ones (0)
            r = pool.apply_async(task, args=i, callback=cb, error_callback=ecb, **kw)
        elif t.get('kwargs'):
            r = pool.apply_async(task, args=(i,), kwargs={'b': i + 1} if False else None, callback=cb, error_callback=ecb, **kw)
        else:
            r = pool.apply_async(task, args=(i, i + 1), callback=cb, error_callback=ecb, **kw)
        results.append((i, r))
        if t.get('gap'):
            sim.time_shim.sleep(t['gap'])
    if op.get('defer_wait'):
        # the results are collected by a later 'apply_collect' operation: other calls run while these tasks are in flight
        obs.setdefault('_pending_apply', {})[opi] = (op, o, results)
        o['outcome'] = 'ok'
        o['apply'] = []
        o['apply_exc'] = {}
        return
    _collect_apply(pool, op, o, results)


def _collect_apply(pool, op, o, results):
    outs = o['apply'] = []
    excs = o['apply_exc'] = {}
    order = op.get('wait_order') or list(range(len(results)))
    if op.get('join_first'):
        # ('keep_alive': the workers stay, and so does the pool — what is then still on its way arrives while it is alive; with
        # 'keep_alive_then_terminate' the pool is ended right afterwards, as leaving the with-block does: nothing may get lost by that)
        if op.get('join_first') in ('keep_alive', 'keep_alive_then_terminate'):
            pool.stop_and_join(keep_alive=True)
            if op.get('join_first') == 'keep_alive_then_terminate':
                pool.terminate()
                o['ready_after_join'] = [(i, bool(r.ready())) for i, r in results]
        else:
            pool.stop_and_join()
            o['ready_after_join'] = [(i, bool(r.ready())) for i, r in results]
        o['joined'] = True
    for j in order:
        i, r = results[j]
        try:
            v = r.get(timeout=op.get('get_timeout', 60))
            outs.append((i, 'ok', _j(v), r.ready()))
        except (sim.Stuck, sim.SimAbort):
            raise
        except BaseException as e:  # noqa
            outs.append((i, 'raise', type(e).__name__, r.ready()))
            excs[str(i)] = exc_info(e)
    o['outcome'] = 'ok'


def _make_injection(inj, obs):
    kind = inj['kind']
    fired = []
    cnt = [0]

    def hook(S, st):
        if fired:
            return
        if kind == 'sigkill':
            hit = False
            if inj.get('when') == 'in_user':
                # the nth scheduling point at which (any instance of) the victim is inside a task function
                if st.role == inj['victim'] and getattr(st, 'in_user', 0):
                    cnt[0] += 1
                    hit = cnt[0] == inj.get('nth', 1)
            else:
                hit = st.role == inj['victim'] and st.points == inj['point']
            if hit:
                ordinal = sum(1 for t in S.threads[:S.threads.index(st) + 1] if t.role == st.role) - 1
                if inj.get('when') != 'in_user' and ordinal != inj.get('instance', 0):
                    return
                fired.append(1)
                if st.held > 0:
                    obs['inject_skipped'] = 'victim holds a lock'
                    return
                w = int(st.role.split('-')[1])
                announced = any(ev[2] == st.role and ev[3] == 'array.set' and ev[4] == 'workers_dead' and ev[5] == w and ev[6] is False
                                for ev in S.trace if ev[0] >= getattr(st, 'start_step', 0))
                if not announced:
                    obs['inject_skipped'] = 'start-up window (victim has not announced itself)'
                    return
                if st.done:
                    obs['inject_skipped'] = 'victim already finished'
                    return
                try:
                    phase, vtask = _victim_phase(S, st), _victim_task(S, st)
                except Exception as e:  # noqa: a classification problem of the harness must not reach the simulated thread
                    phase, vtask = 'unclassified:' + repr(e)[:80], None
                try:
                    xph = _exit_phase(S, st)
                except Exception:  # noqa
                    xph = 'unclassified'
                obs['injected'] = {'kind': 'sigkill', 'victim': st.role, 'instance': ordinal, 'point': st.points, 't': round(S.now - S.t0, 6),
                                   'in_user_function': bool(getattr(st, 'in_user', 0)), 'victim_phase': phase,
                                   'victim_task': vtask, 'exit_phase': xph, 'opi': len(obs.get('ops', [])) - 1}
                S.rec('inject-sigkill', st.role)
                S.kill_proc(st.proc)
        elif kind == 'sigint':
            if st is S.threads[0] and st.points == inj['point']:
                fired.append(1)
                import traceback as _tb
                frames = [f for f in _tb.extract_stack() if '/mpire/' in f.filename]
                site = '>'.join('%s:%s' % (f.filename.split('/mpire/')[-1].replace('.py', ''), f.name) for f in frames[-3:])
                obs['injected'] = {'kind': 'sigint', 'point': st.points, 't': round(S.now - S.t0, 6),
                                   'handler': repr(S.mainproc.handlers.get(sim.SIGINT)).split(' at ')[0][:60], 'site': site}
                S.rec('inject-sigint')
                S.mainproc.pending.append(sim.SIGINT)
                if inj.get('group'):
                    # Ctrl-C in a terminal: the signal goes to the whole foreground process group, i.e. to every worker process too
                    for p in list(S.procs.values()):
                        if p is not S.mainproc and not p.killed and not (p.main_st is not None and p.main_st.done):
                            p.pending.append(sim.SIGINT)
                    obs['injected']['group'] = True
    return hook


def _victim_phase(S, st):
    """what the victim did last: 'in_user', 'apply_pill_taken' / 'apply_task_taken' (dequeued, job not announced yet), 'idle', ..."""
    if getattr(st, 'in_user', 0):
        return 'in_user'
    if getattr(st, 'in_hook', None):
        return st.in_hook + '_announced'
    for pos in range(len(S.trace) - 1, -1, -1):
        ev = S.trace[pos]
        if ev[0] < getattr(st, 'start_step', 0):
            break
        if ev[2] != st.role:
            continue
        if ev[3] == 'array.set' and ev[4] == 'working_on_job':
            return 'init_announced' if ev[6] == -2 else 'exit_announced' if ev[6] == -3 else 'job_announced'
        if ev[3] == 'user' and ev[4] == 'task':
            return 'after_user'
        if ev[3] == 'user':
            return ev[4] + '_ran'       # inside or just after worker_init / worker_exit
        if ev[3] == 'q.task_done':
            # what was acknowledged: the apply pill (its task is still to come / in hand) or a task (then the worker is between tasks)
            for p2 in range(pos - 1, -1, -1):
                e2 = S.trace[p2]
                if e2[2] == st.role and e2[3] == 'q.get' and isinstance(e2[4], str) and e2[4].startswith('tq['):
                    return 'apply_pill_taken' if isinstance(e2[5], str) and e2[5] == '\x03' else 'acked'
            return 'acked'
        if ev[3] == 'q.put' and ev[4] == 'rq':
            return 'results_sent'
        if ev[3] == 'q.get' and isinstance(ev[4], str) and ev[4].startswith('tq['):
            item = ev[5]
            if isinstance(item, str) and item == '\x03':
                return 'apply_pill_taken'
            if isinstance(item, tuple) and len(item) == 2 and isinstance(item[1], tuple) and item[1] and callable(item[1][0]):
                return 'apply_task_taken'
            if isinstance(item, tuple):
                return 'chunk_taken'
            return 'pill_taken'
    return 'idle'


def _exit_phase(S, st):
    """how far the victim is on its way out (vocabulary of Model/GracefulStop.lean): None (it has not taken a lethal pill), 'pill',
    'exiting' (inside worker_exit or before its result is sent), 'sent', 'dead' (it marked itself as dead)"""
    ph = None
    w = st.role.split('-')[-1]
    for ev in S.trace:
        if ev[0] < getattr(st, 'start_step', 0) or ev[2] != st.role:
            continue
        if ev[3] == 'q.get' and isinstance(ev[4], str) and ev[4].startswith('tq[') and isinstance(ev[5], str) and ev[5] == '\x00':
            ph = 'pill'
        elif ph is not None and ev[3] == 'user' and ev[4] == 'exit':
            ph = 'exiting'
        elif ph == 'exiting' and ev[3] == 'q.put' and ev[4] == 'rq':
            ph = 'sent'
        elif ph is not None and ev[3] == 'array.set' and ev[4] == 'workers_dead' and str(ev[5]) == w and ev[6]:
            ph = 'dead'
    return ph


def _victim_task(S, st):
    """index of the apply task the victim was handed most recently (taken, or next in its queue after the pill it took)"""
    try:
        for ev in reversed(S.trace):
            if ev[0] < getattr(st, 'start_step', 0):
                break
            if ev[2] != st.role:
                continue
            if ev[3] == 'user' and ev[4] == 'task':
                return ev[5]
            if ev[3] == 'q.get' and isinstance(ev[4], str) and ev[4].startswith('tq['):
                item = ev[5]
                if isinstance(item, tuple) and len(item) == 2 and isinstance(item[1], tuple) and item[1] and callable(item[1][0]):
                    return item[1][1][0][0]
                if isinstance(item, str) and item == '\x03':
                    # the task is the next entry of that queue
                    for e2 in S.trace:
                        if e2[3] == 'q.put' and e2[4] == ev[4] and e2[0] > 0:
                            pass
                    import mpire  # noqa
                    return None
    except Exception:
        return None
    return None


def _in_user(S, st):
    return True


def _make_rule(rule):
    """{'role': thread role, 'op': primitive op, 'obj': object role or None, 'k': steps, 'p': probability}"""
    def r(S, st, op, obj, val):
        if st.role != rule['role'] or op != rule['op']:
            return 0
        if rule.get('obj') and getattr(obj, 'role', None) != rule['obj']:
            return 0
        if 'val' in rule and (val is None or val[1] != rule['val']):
            return 0
        if S.rng.random() < rule.get('p', 0.5):
            if rule.get('sleep'):
                return ('sleep', rule['sleep'])      # the thread is descheduled for that much virtual time at this point
            return rule.get('k', 60)
        return 0
    return r
