#!/venv/bin/python
"""usage: tools_seed_matrix.py <src-dir> <seed-id> [Cxx ...]
Stores a seeded change (patch.diff, demo.py, notes.md, confirm.txt from <src-dir>) as /verif/seeded/<seed-id>/ and records in
meta.json which checks report a violation with it.  The change is applied to a scratch worktree of /repo's HEAD (never to /repo);
the checks run against it through MPIRE_REPO and write their evidence/replays to a scratch directory (VERIF_OUT)."""
import json
import os
import re
import shutil
import subprocess
import sys

ROOT = os.path.dirname(os.path.abspath(__file__))
ALL = ['C%02d' % i for i in range(1, 20)]


def sh(*a, **k):
    return subprocess.run(a, stdout=subprocess.PIPE, stderr=subprocess.STDOUT, text=True, **k)


def main():
    src, sid = sys.argv[1], sys.argv[2]
    props = sys.argv[3:] or ALL
    dst = os.path.join(ROOT, 'seeded', sid)
    os.makedirs(dst, exist_ok=True)
    for f in ('patch.diff', 'demo.py', 'notes.md', 'confirm.txt'):
        if os.path.exists(os.path.join(src, f)) and os.path.abspath(src) != os.path.abspath(dst):
            shutil.copy(os.path.join(src, f), os.path.join(dst, f))
    wt = '/tmp/seedrun-' + sid
    out = '/tmp/seedout-' + sid
    sh('git', '-C', '/repo', 'worktree', 'remove', '--force', wt)
    r = sh('git', '-C', '/repo', 'worktree', 'add', '-q', '--detach', wt, 'HEAD')
    if r.returncode:
        print(r.stdout)
        sys.exit(2)
    try:
        r = sh('git', '-C', wt, 'apply', os.path.join(dst, 'patch.diff'))
        if r.returncode:
            print('patch does not apply:', r.stdout)
            sys.exit(2)
        head = sh('git', '-C', '/repo', 'rev-parse', '--short', 'HEAD').stdout.strip()
        results = {}
        env = dict(os.environ, MPIRE_REPO=wt, VERIF_OUT=out, VERIF_CASE_WALL=os.environ.get('VERIF_CASE_WALL', '30'))
        for p in props:
            r = sh(os.path.join(ROOT, 'check'), p, '--tier', 'quick', env=env, cwd=ROOT)
            lines = [l for l in r.stdout.splitlines() if l.startswith('VIOLATION')]
            entry = {'exit': r.returncode, 'violation': bool(lines), 'no_failing_input_found': any(l.endswith('no-failing-input-found') for l in lines)}
            try:
                ev = json.load(open(os.path.join(out, 'evidence', p + '.json')))
                entry['violation_classes'] = ev.get('coverage', {}).get('violation_classes')
            except Exception:
                pass
            results[p] = entry
            print(sid, p, entry, flush=True)
    finally:
        sh('git', '-C', '/repo', 'worktree', 'remove', '--force', wt)
        shutil.rmtree(out, ignore_errors=True)
    meta_path = os.path.join(dst, 'meta.json')
    meta = json.load(open(meta_path)) if os.path.exists(meta_path) else {}
    m = re.match(r'(C\d\d)', sid)
    meta.setdefault('property', m.group(1) if m else None)
    meta['id'] = sid
    meta['repo_head'] = head
    meta['files'] = sorted(set(re.findall(r'^\+\+\+ b/(\S+)', open(os.path.join(dst, 'patch.diff')).read(), re.M)))
    conf = os.path.join(dst, 'confirm.txt')
    if os.path.exists(conf) and 'demo_with_change_rc=' in open(conf).read():
        t = open(conf).read()
        meta['confirmed'] = {'demo_without_change_rc': int(re.search(r'demo_without_change_rc=(\d+)', t).group(1)),
                             'demo_with_change_rc': int(re.search(r'demo_with_change_rc=(\d+)', t).group(1)),
                             'compiles': 'compiles=yes' in t,
                             'test_suite_with_change': (re.findall(r'^\d+ passed.*$|^.*\d+ failed.*$', t, re.M) or ['?'])[-1]}
    meta.setdefault('checks', {}).update(results)
    meta['detected_by'] = sorted(p for p, e in meta['checks'].items() if e['violation'])
    meta['how_to_apply'] = 'git -C /repo apply /verif/seeded/%s/patch.diff ; ./check %s ; git -C /repo checkout -- .' % (sid, meta['property'])
    json.dump(meta, open(meta_path, 'w'), indent=1, sort_keys=True)
    print(sid, 'detected_by', meta['detected_by'])


if __name__ == '__main__':
    main()
