#!/venv/bin/python
"""Regenerates the appendix table of DESIGN.md from seeded/*/meta.json."""
import glob
import json
import os
import re

ROOT = os.path.dirname(os.path.abspath(__file__))
rows = []
for f in sorted(glob.glob(os.path.join(ROOT, 'seeded', '*', 'meta.json'))):
    m = json.load(open(f))
    d = os.path.dirname(f)
    title = ''
    try:
        title = [l for l in open(os.path.join(d, 'notes.md')).read().split('\n') if l.strip()][0].lstrip('# ').strip()
        title = re.sub(r'^C\d\d\s*/\s*change\s*\d+\s*[-—–]+\s*', '', title)
    except Exception:
        pass
    own = m.get('property')
    chk = m.get('checks', {})
    own_e = chk.get(own, {})
    how = 'failing input' if own_e.get('violation') and not own_e.get('no_failing_input_found') else \
        'proof/correspondence break, no-failing-input-found' if own_e.get('violation') else \
        ('outside the property\'s quantifier (' + m['note'] + ')') if m.get('note') else 'MISSED by its own check'
    if m.get('rebased'):
        title += ' [re-made on the repaired tree]'
    classes = ', '.join(sorted((own_e.get('violation_classes') or {}).keys())[:3])
    conf = m.get('confirmed') or {}
    suite = (conf.get('test_suite_with_change') or '?')
    import re as _re
    mm = _re.search(r'(\d+) passed', suite)
    if conf.get('failures'):
        if conf.get('rerun_alone'):
            suite = '%s passed, %d failed under load (passed 3/3 re-run alone)' % (mm.group(1) if mm else '?', len(conf['failures']))
        elif conf.get('only_known_flake'):
            suite = '%s passed, the known flaky test_enable_insights hung (§7)' % (mm.group(1) if mm else '?')
        else:
            suite = suite.split(',')[0] + ': ' + '; '.join(conf['failures'][:2])
    else:
        suite = suite.split(',')[0]
    confs = 'demo %s→%s; %s' % (conf.get('demo_without_change_rc', '?'), conf.get('demo_with_change_rc', '?'), suite)
    others = [p for p in m.get('detected_by', []) if p != own]
    rows.append('| %s | %s | %s (%s) | %s | %s%s | %s |' % (m['id'], own, title.replace('|', '/'), ', '.join(m.get('files', [])), confs,
                                                       how, (': ' + classes) if classes else '', ' '.join(others) or '—'))
table = ['| id | property | change (files) | confirmed (demo rc without→with; suite with change) | own check (quick) | also caught by |', '|---|---|---|---|---|---|'] + rows
p = os.path.join(ROOT, 'DESIGN.md')
s = open(p).read()
i = s.index('## Appendix to 7c')
head = s[:i]
new = head + '''## Appendix to 7c — seeded changes and the checks that catch them

Every row is a change written by a fresh sub-agent that saw only the text of the property and a scratch worktree of /repo;
it was kept after I confirmed, in a scratch worktree, that it applies and compiles, that its demonstration exits 0 without it
and non-zero with it, and that the repository's test suite still passes with it. `seeded/<id>/` holds patch.diff, demo.py,
notes.md (what it needs to manifest), confirm.txt and meta.json (all 19 quick checks run against the patched tree by
`tools_seed_matrix.py`). Apply with `git -C /repo apply seeded/<id>/patch.diff`, undo with `git -C /repo checkout -- .`.

''' + '\n'.join(table) + '\n'
open(p, 'w').write(new)
print(len(rows), 'rows')
