#!/bin/sh
# usage: tools_run_seed.sh <patch.diff> <Cxx> [<Cyy> ...]   — applies a seeded change to /repo, runs the checks, undoes it
set -u
PATCH="$1"; shift
cd /verif || exit 2
git -C /repo diff --quiet || { echo "/repo working tree is not clean"; exit 2; }
git -C /repo apply "$PATCH" || { echo "patch does not apply"; exit 2; }
for P in "$@"; do
  ./check "$P" --tier "${TIER:-quick}" 2>&1 | grep -v "^KNOWN-FINDING" | tail -3
done
git -C /repo checkout -- .
git -C /repo status --short | head -3
